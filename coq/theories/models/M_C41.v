(** C41 — "built-in transformations leave a well-formed IR": MiniF units WITH DECLARATIONS.

    Definitions only.  A unit is a body (in the statement language of the transformation at hand) plus what
    the real [Subroutine] carries around it: dummy argument names, declared variables with their kind
    (scalar / array of rank r), the declared shapes (the expressions that occur in array bounds), the names
    that resolve outside the unit (imports, host association) and the uses that internal procedures make of
    the unit's names through host association.

    [well_scoped] is the modelled part of the property: no name is declared twice, every dummy argument is
    declared, every name that occurs in the body / in a declared shape / in an internal procedure resolves to
    a declaration (own declarations first, then imported/host names) and is used the way it is declared
    (a subscripted name is an array of that rank, a DO variable is a scalar; a bare name may be either).

    The unit-level transformations reuse the body transformations of the finished properties
    (C28 inlining, C29 ASSOCIATE resolution, C30 vector notation, C31 unrolling, C32 dead code / unused
    variables, C39 parametrisation) and add the declaration changes the real code makes:
    - [T_vec]       resolve_vector_notation: [routine.variables += index_vars] (every loop variable used by
                    a generated nest, declared as a scalar unless a declaration of that name exists);
    - [T_inline]    inline_subroutine_calls: callee locals (renamed [<callee>_<v>] when they clash with a
                    caller declaration) are hoisted;
    - [T_rmunused]  do_remove_unused_vars: declarations of locals that the dataflow analysis does not report
                    as used or defined are deleted (optionally arrays only);
    - [T_assoc]     do_resolve_associates (start_depth 0): the blocks disappear, declarations unchanged;
    - [T_param]     ParametriseTransformation on one routine: dummies renamed / removed, constants;
    - [T_body f]    transformations that only rewrite the body (unrolling, dead code, constant propagation). *)
From Coq Require Import ZArith List Bool String Ascii.
From LV Require Import Base.Expr Base.MiniF.
From LV Require models.M_C28 models.M_C29 models.M_C30 models.M_C31 models.M_C32 models.M_C39.
Import ListNotations.
Open Scope Z_scope.

(* ------------------------------------------------------------------------------------------ *)
(** * 1. kinds, usages, environments *)

Inductive kind := KScalar | KArray (rank : nat).

(** how an occurrence uses a name: bare ([UAny]: a scalar, or a whole array as in [call f(a)] / [a = 0]),
    as a DO variable ([UScal]), or with [n] subscripts ([UArr n]) *)
Inductive usage := UAny | UScal | UArr (n : nat).

Definition use := (string * usage)%type.

Definition compat (k : kind) (g : usage) : bool :=
  match g, k with
  | UAny, _ => true
  | UScal, KScalar => true
  | UArr n, KArray m => Nat.eqb n m
  | _, _ => false
  end.

Definition kind_eqb (a b : kind) : bool :=
  match a, b with
  | KScalar, KScalar => true
  | KArray n, KArray m => Nat.eqb n m
  | _, _ => false
  end.

Definition denv := list (string * kind).

Fixpoint klookup (env : denv) (x : string) : option kind :=
  match env with
  | [] => None
  | (y, k) :: r => if String.eqb y x then Some k else klookup r x
  end.

Definition mem (x : string) (l : list string) : bool := existsb (String.eqb x) l.

Fixpoint nodupb (l : list string) : bool :=
  match l with [] => true | x :: r => negb (mem x r) && nodupb r end.

Definition use_ok (env : denv) (u : use) : bool :=
  match klookup env (fst u) with Some k => compat k (snd u) | None => false end.

Definition uses_ok (env : denv) (us : list use) : bool := forallb (use_ok env) us.

(** the names Loki (and the finished models) treat as intrinsic functions rather than arrays *)
Definition is_intr (f : string) : bool :=
  String.eqb f "mod" || String.eqb f "modulo" || String.eqb f "abs" || String.eqb f "min" || String.eqb f "max".

(* ------------------------------------------------------------------------------------------ *)
(** * 2. occurrences of names in MiniF *)

Fixpoint uses_e (e : expr) : list use :=
  match e with
  | EInt _ | EPy _ | ELog _ => []
  | EVar x => [(x, UAny)]
  | ESum _ cs | EProd _ cs | EAnd cs | EOr cs => flat_map uses_e cs
  | EQuot _ a b | EPow _ a b | ECmp _ a b => uses_e a ++ uses_e b
  | ENot a => uses_e a
  | ECall f args => (if is_intr f then [] else [(f, UArr (List.length args))]) ++ flat_map uses_e args
  end.

Definition uses_oe (o : option expr) : list use := match o with Some e => uses_e e | None => [] end.
Definition uses_es (l : list expr) : list use := flat_map uses_e l.

Fixpoint uses_stmt (s : stmt) : list use :=
  match s with
  | SAssign x e => (x, UAny) :: uses_e e
  | SStore a idx e => (a, UArr (List.length idx)) :: uses_es idx ++ uses_e e
  | SDo v lo hi st b => (v, UScal) :: uses_e lo ++ uses_e hi ++ uses_oe st ++ flat_map uses_stmt b
  | SWhile c b => uses_e c ++ flat_map uses_stmt b
  | SIf c t e => uses_e c ++ flat_map uses_stmt t ++ flat_map uses_stmt e
  | SCall _ args => uses_es args            (* procedure names are not variables *)
  | SSkip _ => []
  end.

Definition uses_stmts (l : list stmt) : list use := flat_map uses_stmt l.

(* ------------------------------------------------------------------------------------------ *)
(** * 3. units and well-scopedness *)

Definition shapes := list (string * list M_C30.dshape).

Definition dshape_exprs (s : M_C30.dshape) : list expr :=
  match s with M_C30.DSize e => [e] | M_C30.DRange lo hi => [lo; hi] end.
Definition shape_exprs (sh : list M_C30.dshape) : list expr := flat_map dshape_exprs sh.
Definition uses_shapes (ss : shapes) : list use := flat_map (fun p => uses_es (shape_exprs (snd p))) ss.

Record unit (B : Type) := mkUnit {
  u_args   : list string;        (* dummy arguments *)
  u_decls  : denv;               (* routine.variables with their kind, declaration order *)
  u_shapes : shapes;             (* declared shapes of the arrays *)
  u_ext    : denv;               (* imported and host-associated names *)
  u_inner  : list use;           (* what the internal procedures use of this unit's names *)
  u_body   : B }.
Arguments mkUnit {B}. Arguments u_args {B}. Arguments u_decls {B}. Arguments u_shapes {B}.
Arguments u_ext {B}. Arguments u_inner {B}. Arguments u_body {B}.

(** own declarations shadow imported / host names *)
Definition u_env {B} (u : unit B) : denv := u_decls u ++ u_ext u.

(** a declared shape belongs to an array of that rank *)
Definition shape_ok (env : denv) (p : string * list M_C30.dshape) : bool :=
  match snd p with
  | [] => true
  | sh => match klookup env (fst p) with Some k => kind_eqb k (KArray (List.length sh)) | None => false end
  end.

Definition resolves (env : denv) (u : use) : Prop :=
  exists k, klookup env (fst u) = Some k /\ compat k (snd u) = true.

Definition well_scoped {B} (uses : B -> list use) (u : unit B) : Prop :=
  NoDup (map fst (u_decls u))
  /\ incl (u_args u) (map fst (u_decls u))
  /\ Forall (resolves (u_env u)) (uses (u_body u))
  /\ Forall (resolves (u_env u)) (uses_shapes (u_shapes u))
  /\ Forall (resolves (u_env u)) (u_inner u)
  /\ Forall (fun p => shape_ok (u_env u) p = true) (u_shapes u).

Definition well_scopedb {B} (uses : B -> list use) (u : unit B) : bool :=
  nodupb (map fst (u_decls u))
  && forallb (fun a => mem a (map fst (u_decls u))) (u_args u)
  && uses_ok (u_env u) (uses (u_body u))
  && uses_ok (u_env u) (uses_shapes (u_shapes u))
  && uses_ok (u_env u) (u_inner u)
  && forallb (shape_ok (u_env u)) (u_shapes u).

(** declare [names] as scalars unless a declaration of that name exists (ProgramUnit.variables setter:
    a declaration is appended only for symbols that are not yet declared) *)
Fixpoint add_scalars (ds : denv) (names : list string) : denv :=
  match names with
  | [] => ds
  | x :: r => if mem x (map fst ds) then add_scalars ds r else add_scalars (ds ++ [(x, KScalar)]) r
  end.

(** what the setter really compares is the SYMBOL: a new scalar symbol is equal to an existing declaration only
    when that one is a scalar of the same name; a declared ARRAY of the same name does not prevent a second
    declaration (F-C41-vec1).  On the class of the theorems ([ivars_scalar]) the two functions agree. *)
Definition declared_scalar (ds : denv) (x : string) : bool :=
  existsb (fun d : string * kind => String.eqb (fst d) x && match snd d with KScalar => true | KArray _ => false end) ds.

Fixpoint add_scalars_raw (ds : denv) (names : list string) : denv :=
  match names with
  | [] => ds
  | x :: r => if declared_scalar ds x then add_scalars_raw ds r else add_scalars_raw (ds ++ [(x, KScalar)]) r
  end.

Definition set_body {B C} (u : unit B) (b : C) : unit C :=
  mkUnit (u_args u) (u_decls u) (u_shapes u) (u_ext u) (u_inner u) b.
Definition set_decls {B} (u : unit B) (ds : denv) : unit B :=
  mkUnit (u_args u) ds (u_shapes u) (u_ext u) (u_inner u) (u_body u).

(** transformations that only rewrite the body *)
Definition T_body {B C} (f : B -> C) (u : unit B) : unit C := set_body u (f (u_body u)).
Definition T_body_opt {B C} (f : B -> option C) (u : unit B) : option (unit C) :=
  option_map (set_body u) (f (u_body u)).

(* ------------------------------------------------------------------------------------------ *)
(** * 4. resolve_vector_notation (body: C30's section statements) *)

Definition uses_vindex (d : M_C30.vindex) : list use :=
  match d with
  | M_C30.IScalar e => uses_e e
  | M_C30.IRange lo hi st => uses_oe lo ++ uses_oe hi ++ uses_oe st
  end.

Definition ref_usage (idx : list M_C30.vindex) : usage :=
  match idx with [] => UAny | _ => UArr (List.length idx) end.

Fixpoint uses_vexpr (e : M_C30.vexpr) : list use :=
  match e with
  | M_C30.VScal e => uses_e e
  | M_C30.VRef a idx => (a, ref_usage idx) :: flat_map uses_vindex idx
  | M_C30.VSum _ cs | M_C30.VProd _ cs => flat_map uses_vexpr cs
  | M_C30.VQuot _ n d => uses_vexpr n ++ uses_vexpr d
  | M_C30.VCall f cs => (if is_intr f then [] else [(f, UArr (List.length cs))]) ++ flat_map uses_vexpr cs
  end.

Fixpoint uses_vstmt (s : M_C30.vstmt) : list use :=
  match s with
  | M_C30.VPlain s => uses_stmt s
  | M_C30.VAssign a idx rhs => (a, ref_usage idx) :: flat_map uses_vindex idx ++ uses_vexpr rhs
  | M_C30.VDo v lo hi st b => (v, UScal) :: uses_e lo ++ uses_e hi ++ uses_oe st ++ flat_map uses_vstmt b
  | M_C30.VIf c t e => uses_e c ++ flat_map uses_vstmt t ++ flat_map uses_vstmt e
  | M_C30.VWhere c b e =>
      uses_vexpr (M_C30.vc_l c) ++ uses_vexpr (M_C30.vc_r c) ++ flat_map uses_vstmt b ++ flat_map uses_vstmt e
  end.

Definition uses_vstmts (l : list M_C30.vstmt) : list use := flat_map uses_vstmt l.

(** the loop variables of the nest generated for one assignment ([index_range_map.keys()]) *)
Definition core_ivars (lm : M_C30.loop_map) (ds : M_C30.decls) (a : string) (idx : list M_C30.vindex) : list string :=
  M_C30.name_ranges lm ("i_" ++ a)%string 0 (M_C30.ranges_of (M_C30.qualify_idx ds a idx)) [].

Definition where_body_ivars (lm : M_C30.loop_map) (ds : M_C30.decls) (b : list M_C30.vstmt) : list string :=
  flat_map (fun s => match s with M_C30.VAssign a idx _ => core_ivars lm ds a idx | _ => [] end) b.

(** the loop variables of a resolved WHERE: those of the mask references (both sides, dict order) *)
Definition where_ivars (lm : M_C30.loop_map) (ds : M_C30.decls) (c : M_C30.vcond) : list string :=
  match M_C30.where_side lm (M_C30.qualify_vexpr ds (M_C30.vc_l c)) [] with
  | Some l =>
      match M_C30.where_side lm (M_C30.qualify_vexpr ds (M_C30.vc_r c)) (snd l) with
      | Some r => map fst (snd r)
      | None => []
      end
  | None => []
  end.

Fixpoint stmt_ivars (lm : M_C30.loop_map) (ds : M_C30.decls) (s : M_C30.vstmt) : list string :=
  match s with
  | M_C30.VPlain _ => []
  | M_C30.VAssign a idx _ => core_ivars lm ds a idx
  | M_C30.VDo _ _ _ _ b => flat_map (stmt_ivars lm ds) b
  | M_C30.VIf _ t e => flat_map (stmt_ivars lm ds) t ++ flat_map (stmt_ivars lm ds) e
  | M_C30.VWhere c b e => where_body_ivars lm ds b ++ where_body_ivars lm ds e ++ where_ivars lm ds c
  end.

(** transformer.index_vars *)
Definition body_ivars (ds : M_C30.decls) (b : list M_C30.vstmt) : list string :=
  flat_map (stmt_ivars (M_C30.loops_of_body b) ds) b.

Definition T_vec (u : unit (list M_C30.vstmt)) : option (unit (list stmt)) :=
  match M_C30.resolve_prog (u_shapes u) (u_body u) with
  | Some b' =>
      Some (mkUnit (u_args u) (add_scalars_raw (u_decls u) (body_ivars (u_shapes u) (u_body u)))
                   (u_shapes u) (u_ext u) (u_inner u) b')
  | None => None
  end.

(** class: a synthesized or reused loop variable is not the name of something declared as an array *)
Definition ivars_scalar {B} (u : unit B) (ivs : list string) : bool :=
  forallb (fun x => match klookup (u_env u) x with Some (KArray _) => false | _ => true end) ivs.

(** class: a bare array reference ([a = ...], [... = b + 1]) names an array with a declared shape (the code
    qualifies it from the shape; without one the model emits the reference with no subscripts) *)
Definition shaped (ds : M_C30.decls) (a : string) (idx : list M_C30.vindex) : bool :=
  match idx with
  | [] => match M_C30.lookup_decl ds a with Some (_ :: _) => true | _ => false end
  | _ => true
  end.

Definition bare_shaped (ds : M_C30.decls) (b : list M_C30.vstmt) : bool :=
  forallb (M_C30.all_refs_stmt (shaped ds)) b.

Definition vec_class (u : unit (list M_C30.vstmt)) : bool :=
  ivars_scalar u (body_ivars (u_shapes u) (u_body u)) && bare_shaped (u_shapes u) (u_body u).

(* ------------------------------------------------------------------------------------------ *)
(** * 5. inlining one callee (C28) *)

(** ranks of the callee's local arrays (M_C28's callee record carries names only) *)
Definition lranks := list (string * nat).
Definition rank_of (lr : lranks) (a : string) : nat :=
  match M_C28.assoc lr a with Some n => n | None => 1%nat end.

Definition callee_decls (lr : lranks) (ce : M_C28.callee) : denv :=
  map (fun p : string * bool =>
         (fst p, if snd p then KArray (List.length (M_C28.lbs_of (M_C28.ce_lbs ce) (fst p))) else KScalar))
      (M_C28.ce_params ce)
  ++ map (fun v => (v, KScalar)) (M_C28.ce_locals ce)
  ++ map (fun a => (a, KArray (rank_of lr a))) (M_C28.ce_larrs ce).

(** the callee as a unit of its own; [host] is what it sees by host association / imports *)
Definition callee_unit (lr : lranks) (host : denv) (ce : M_C28.callee) : unit (list stmt) :=
  mkUnit (map fst (M_C28.ce_params ce)) (callee_decls lr ce) [] host [] (M_C28.ce_body ce).

Definition hoisted_decls (cvars : list string) (lr : lranks) (ce : M_C28.callee) : denv :=
  map (fun v => (if M_C28.mem v cvars then M_C28.ren (M_C28.ce_name ce) v else v, KScalar)) (M_C28.ce_locals ce)
  ++ map (fun a => (if M_C28.mem a cvars then M_C28.ren (M_C28.ce_name ce) a else a, KArray (rank_of lr a)))
         (M_C28.ce_larrs ce).

Definition T_inline (lbc : list (string * list Z)) (lr : lranks) (ce : M_C28.callee) (u : unit (list stmt))
  : option (unit (list stmt)) :=
  let cvars := map fst (u_decls u) in
  match M_C28.inline_body cvars lbc ce (u_body u) with
  | Some b' => Some (mkUnit (u_args u) (u_decls u ++ hoisted_decls cvars lr ce) (u_shapes u) (u_ext u) (u_inner u) b')
  | None => None
  end.

(** several callees in Loki's order (the caller's variable list grows) *)
Fixpoint T_inline_all (lbc : list (string * list Z)) (lrs : list lranks) (ces : list M_C28.callee)
         (u : unit (list stmt)) : option (unit (list stmt)) :=
  match ces, lrs with
  | [], _ => Some u
  | ce :: r, lr :: q => match T_inline lbc lr ce u with Some u' => T_inline_all lbc q r u' | None => None end
  | ce :: r, [] => match T_inline lbc [] ce u with Some u' => T_inline_all lbc [] r u' | None => None end
  end.

(** call sites: arity, a bare variable bound to a scalar dummy is a scalar (it may become a DO variable),
    an array dummy is bound to a whole array of the dummy's rank *)
Fixpoint args_ok (env : denv) (ce : M_C28.callee) (ps : list (string * bool)) (args : list expr) : bool :=
  match ps, args with
  | [], [] => true
  | (d, true) :: r, EVar a :: q =>
      (match klookup env a with
       | Some k => kind_eqb k (KArray (List.length (M_C28.lbs_of (M_C28.ce_lbs ce) d)))
       | None => false end) && args_ok env ce r q
  | (d, false) :: r, EVar y :: q =>
      (match klookup env y with Some KScalar => true | _ => false end) && args_ok env ce r q
  | (d, false) :: r, _ :: q => args_ok env ce r q
  | _, _ => false
  end.

Fixpoint sites_ok (env : denv) (ce : M_C28.callee) (s : stmt) : bool :=
  match s with
  | SCall g args => if String.eqb g (M_C28.ce_name ce) then args_ok env ce (M_C28.ce_params ce) args else true
  | SDo _ _ _ _ b | SWhile _ b => forallb (sites_ok env ce) b
  | SIf _ t e => forallb (sites_ok env ce) t && forallb (sites_ok env ce) e
  | _ => true
  end.

(** class of the inlining theorem: the hoisted names are new (not declared in the caller, not the name of an
    imported / host variable, pairwise distinct), the callee's own declarations are distinct, call sites fit *)
(** the callee uses its array dummies and local arrays only with subscripts (a bare array name is not
    substituted by the model of the inliner) *)
Definition arrays_subscripted (ce : M_C28.callee) : bool :=
  let arrs := map fst (filter (fun p : string * bool => snd p) (M_C28.ce_params ce)) ++ M_C28.ce_larrs ce in
  forallb (fun g : use => match snd g with UArr _ => true | _ => negb (mem (fst g) arrs) end)
          (uses_stmts (M_C28.ce_body ce)).

Definition inline_class (lr : lranks) (ce : M_C28.callee) (u : unit (list stmt)) : bool :=
  let cvars := map fst (u_decls u) in
  let h := map fst (hoisted_decls cvars lr ce) in
  arrays_subscripted ce && nodupb (cvars ++ h)
  && forallb (fun x => negb (mem x (map fst (u_ext u)))) h
  && nodupb (map fst (callee_decls lr ce))
  && forallb (sites_ok (u_env u) ce) (u_body u).

(** ** inlining with [allowed_aliases]
    A callee local whose name is in [allowed_aliases] is never renamed.  If the caller DECLARES a variable of that
    name the two are shared (the callee's declaration is dropped: "s not in routine.variables"); if the caller does
    not declare it, the callee's declaration is hoisted under its own name like any other non-clashing local. *)
Definition cvars_al (al cvars : list string) : list string := filter (fun x => negb (mem x al)) cvars.
Definition shared_alias (al cvars : list string) (v : string) : bool := mem v al && mem v cvars.

Definition hoisted_decls_al (al cvars : list string) (lr : lranks) (ce : M_C28.callee) : denv :=
  let cv := cvars_al al cvars in
  map (fun v => (if M_C28.mem v cv then M_C28.ren (M_C28.ce_name ce) v else v, KScalar))
      (filter (fun v => negb (shared_alias al cvars v)) (M_C28.ce_locals ce))
  ++ map (fun a => (if M_C28.mem a cv then M_C28.ren (M_C28.ce_name ce) a else a, KArray (rank_of lr a)))
         (filter (fun a => negb (shared_alias al cvars a)) (M_C28.ce_larrs ce)).

Definition T_inline_al (al : list string) (lbc : list (string * list Z)) (lr : lranks) (ce : M_C28.callee)
           (u : unit (list stmt)) : option (unit (list stmt)) :=
  let cvars := map fst (u_decls u) in
  match M_C28.inline_body (cvars_al al cvars) lbc ce (u_body u) with
  | Some b' => Some (mkUnit (u_args u) (u_decls u ++ hoisted_decls_al al cvars lr ce) (u_shapes u) (u_ext u) (u_inner u) b')
  | None => None
  end.

Fixpoint T_inline_all_al (al : list string) (lbc : list (string * list Z)) (lrs : list lranks) (ces : list M_C28.callee)
         (u : unit (list stmt)) : option (unit (list stmt)) :=
  match ces, lrs with
  | [], _ => Some u
  | ce :: r, lr :: q => match T_inline_al al lbc lr ce u with Some u' => T_inline_all_al al lbc q r u' | None => None end
  | ce :: r, [] => match T_inline_al al lbc [] ce u with Some u' => T_inline_all_al al lbc [] r u' | None => None end
  end.

(** class: as [inline_class], and a shared alias is declared in the caller with the kind the callee gives it *)
Definition inline_class_al (al : list string) (lr : lranks) (ce : M_C28.callee) (u : unit (list stmt)) : bool :=
  let cvars := map fst (u_decls u) in
  let h := map fst (hoisted_decls_al al cvars lr ce) in
  arrays_subscripted ce && nodupb (cvars ++ h)
  && forallb (fun x => negb (mem x (map fst (u_ext u)))) h
  && nodupb (map fst (callee_decls lr ce))
  && forallb (sites_ok (u_env u) ce) (u_body u)
  && forallb (fun v => negb (shared_alias al cvars v)
                       || match klookup (u_decls u) v with Some KScalar => true | _ => false end) (M_C28.ce_locals ce)
  && forallb (fun a => negb (shared_alias al cvars a)
                       || match klookup (u_decls u) a with Some k => kind_eqb k (KArray (rank_of lr a)) | None => false end)
             (M_C28.ce_larrs ce).

(* ------------------------------------------------------------------------------------------ *)
(** * 6. do_remove_unused_vars (C32's unused_locals = find_unused_dummy_args_and_vars) *)

Definition c32_decls {B} (u : unit B) : list M_C32.decl :=
  map (fun d => (fst d, match M_C30.lookup_decl (u_shapes u) (fst d) with
                        | Some sh => shape_exprs sh | None => [] end)) (u_decls u).

Definition is_array (k : kind) : bool := match k with KArray _ => true | KScalar => false end.

Definition removed_vars (only_arrays : bool) (u : unit (list stmt)) : list string :=
  filter (fun x => match klookup (u_decls u) x with
                   | Some k => negb only_arrays || is_array k | None => false end)
         (M_C32.unused_locals (u_args u) (c32_decls u) (u_body u)).

Definition T_rmunused (only_arrays : bool) (u : unit (list stmt)) : unit (list stmt) :=
  let rm := removed_vars only_arrays u in
  mkUnit (u_args u)
         (filter (fun d => negb (mem (fst d) rm)) (u_decls u))
         (filter (fun p => negb (mem (fst p) rm)) (u_shapes u))
         (u_ext u) (u_inner u) (u_body u).

Definition use_names (us : list use) : list string := map fst us.

(** class on which the code is right: no removed name still occurs in the body (fails for a DO variable that
    only lives inside its loop), in an internal procedure (host association), or in a remaining shape *)
Definition rm_class (only_arrays : bool) (u : unit (list stmt)) : bool :=
  let rm := removed_vars only_arrays u in
  forallb (fun x => negb (mem x rm)) (use_names (uses_stmts (u_body u)))
  && forallb (fun x => negb (mem x rm)) (use_names (u_inner u))
  && forallb (fun x => negb (mem x rm))
             (use_names (uses_shapes (filter (fun p => negb (mem (fst p) rm)) (u_shapes u)))).

(** syntactic sufficient condition for the first conjunct: every DO variable is also assigned, read or passed
    outside of being a loop counter, i.e. the dataflow analysis reports it *)
Definition lv_live (body : list stmt) : bool :=
  forallb (fun x => M_C32.occ_df_l x body) (use_names (uses_stmts body)).

(* ------------------------------------------------------------------------------------------ *)
(** * 7. do_resolve_associates (body: C29's statements with ASSOCIATE blocks) *)

Definition uses_dim (d : M_C29.dim) : list use :=
  match d with M_C29.DFix e => uses_e e | M_C29.DFree _ => [] end.

(** occurrences in a selector, seen from the enclosing scope *)
Definition uses_sel (sl : M_C29.sel) : list use :=
  match sl with
  | M_C29.SName y => [(y, UAny)]
  | M_C29.SSec a ds => (a, UArr (List.length ds)) :: flat_map uses_dim ds
  | M_C29.SVal e => uses_e e
  end.

Definition free_dims (ds : list M_C29.dim) : nat :=
  List.length (filter (fun d => match d with M_C29.DFree _ => true | _ => false end) ds).

(** kind of an associate name *)
Definition sel_kind (env : denv) (sl : M_C29.sel) : option kind :=
  match sl with
  | M_C29.SName y => klookup env y
  | M_C29.SSec _ ds => Some (match free_dims ds with O => KScalar | n => KArray n end)
  | M_C29.SVal _ => Some KScalar
  end.

Definition assoc_env (env : denv) (l : list (string * M_C29.sel)) : denv :=
  flat_map (fun p => match sel_kind env (snd p) with Some k => [(fst p, k)] | None => [] end) l.

(** scoped well-formedness of a body with ASSOCIATE blocks: selectors are resolved in the enclosing
    environment, the body in the environment extended by the associate names *)
Fixpoint ws_astmt (env : denv) (st : M_C29.astmt) : bool :=
  match st with
  | M_C29.AAssign x e => use_ok env (x, UAny) && uses_ok env (uses_e e)
  | M_C29.AStore a idx e => use_ok env (a, UArr (List.length idx)) && uses_ok env (uses_es idx) && uses_ok env (uses_e e)
  | M_C29.ADo v lo hi st b =>
      use_ok env (v, UScal) && uses_ok env (uses_e lo) && uses_ok env (uses_e hi) && uses_ok env (uses_oe st)
      && forallb (ws_astmt env) b
  | M_C29.AIf c t e => uses_ok env (uses_e c) && forallb (ws_astmt env) t && forallb (ws_astmt env) e
  | M_C29.ASkip _ => true
  | M_C29.AAssoc l b =>
      forallb (fun p => uses_ok env (uses_sel (snd p))) l
      && forallb (ws_astmt (assoc_env env l ++ env)) b
  end.

Definition ws_astmts (env : denv) (l : list M_C29.astmt) : bool := forallb (ws_astmt env) l.

(** a unit whose body has blocks: the flat use list does not apply, the body is checked with [ws_astmts] *)
Definition well_scoped_a (u : unit (list M_C29.astmt)) : Prop :=
  well_scoped (fun _ => []) u /\ ws_astmts (u_env u) (u_body u) = true.
Definition well_scoped_ab (u : unit (list M_C29.astmt)) : bool :=
  well_scopedb (fun _ => []) u && ws_astmts (u_env u) (u_body u).

Definition T_assoc (u : unit (list M_C29.astmt)) : unit (list stmt) := T_body M_C29.resolve u.

(* ------------------------------------------------------------------------------------------ *)
(** * 8. ParametriseTransformation on one routine (C39; arrays of C39's units are rank-1 dummies) *)

Definition c39_param_decls (ps : list (string * bool)) : denv :=
  flat_map (fun p : string * bool => if snd p then [(fst p, KArray 1%nat)] else []) ps.

Definition unit_of_c39 (ext : denv) (u : M_C39.unit) : unit (list stmt) :=
  mkUnit (M_C39.param_names (M_C39.u_params u))
         (c39_param_decls (M_C39.u_params u) ++ map (fun x => (x, KScalar)) (M_C39.u_decls u))
         [] ext [] (M_C39.u_body u).

(** declared scalars after the transformation: constants stay declared (PARAMETER) unless replaced by value,
    the entry point declares the renamed dummies *)
Definition param_scalars (m : M_C39.pmode) (entry : bool) (D : M_C39.dict) (u : M_C39.unit) : list string :=
  (match m with
   | M_C39.MDecl => M_C39.u_decls u
   | M_C39.MReplace => filter (fun x => negb (M_C39.mem D x)) (M_C39.u_decls u)
   end)
  ++ (if entry
      then flat_map (fun p : string * bool => if M_C39.mem D (fst p) && negb (snd p) then [M_C39.pname (fst p)] else [])
                    (M_C39.u_params u)
      else []).

Definition T_param (succ : string -> bool) (m : M_C39.pmode) (abort : list stmt) (entry : bool) (D : M_C39.dict)
           (ext : denv) (u : M_C39.unit) : unit (list stmt) :=
  let t := M_C39.transform_unit succ m abort entry D u in
  mkUnit (M_C39.param_names (M_C39.t_params t))
         (c39_param_decls (M_C39.t_params t) ++ map (fun x => (x, KScalar)) (param_scalars m entry D u))
         [] ext [] (M_C39.t_guards t ++ M_C39.t_body t).

(** names a statement writes or uses as an array / DO variable (a replaced-by-value key must not be one) *)
Fixpoint hard_names (s : stmt) : list string :=
  match s with
  | SAssign x _ => [x]
  | SStore a _ _ => [a]
  | SDo v _ _ _ b => v :: flat_map hard_names b
  | SWhile _ b => flat_map hard_names b
  | SIf _ t e => flat_map hard_names t ++ flat_map hard_names e
  | _ => []
  end.

Definition array_names (us : list use) : list string :=
  flat_map (fun p => match snd p with UArr _ => [fst p] | _ => [] end) us.

(** the dummies that the entry point renames are pairwise distinct (only matters at the entry point) *)
Definition renamed_dummies (D : M_C39.dict) (u : M_C39.unit) : list string :=
  flat_map (fun p : string * bool => if M_C39.mem D (fst p) && negb (snd p) then [fst p] else []) (M_C39.u_params u).
Definition param_extra (entry : bool) (D : M_C39.dict) (u : M_C39.unit) : bool :=
  negb entry || nodupb (renamed_dummies D u).

Definition param_class (m : M_C39.pmode) (abort : list stmt) (entry : bool) (D : M_C39.dict) (ext : denv) (u : M_C39.unit) : bool :=
  let keys := map fst D in
  let pn := map M_C39.pname keys in
  (* keys are scalars: declared as such, never array dummies *)
  forallb (fun p : string * bool => negb (snd p && mem (fst p) keys)) (M_C39.u_params u)
  (* the renamed dummies are new names *)
  && forallb (fun x => negb (mem x (map fst (u_decls (unit_of_c39 ext u))))) pn
  && forallb (fun x => negb (mem x (map fst ext))) pn
  && nodupb pn
  (* the abort statements only use names that resolve *)
  && uses_ok (u_env (unit_of_c39 ext u)) (uses_stmts abort)
  && forallb (fun x => negb (mem x (use_names (uses_stmts abort)))) (keys ++ pn)
  (* replace_by_value: a key is never written, subscripted or a DO variable, and is not an imported name *)
  && (match m with
      | M_C39.MDecl => true
      | M_C39.MReplace =>
          forallb (fun x => negb (mem x keys))
                  (flat_map hard_names (M_C39.u_body u) ++ array_names (uses_stmts (M_C39.u_body u)))
      end).

(* ------------------------------------------------------------------------------------------ *)
(** * 9. body-only transformations (declarations untouched) *)

Definition T_unroll (u : unit (list stmt)) : unit (list stmt) := T_body M_C31.do_unroll u.
Definition T_dce (simp : bool) (u : unit (list stmt)) : option (unit (list stmt)) := T_body_opt (M_C32.dce simp) u.

(* ------------------------------------------------------------------------------------------ *)
(** * 10. comparators used by the correspondence *)

Fixpoint denv_incl (a b : denv) : bool :=
  match a with
  | [] => true
  | (x, k) :: r => (match klookup b x with Some k' => kind_eqb k k' | None => false end) && denv_incl r b
  end.

Definition decl_eqb (p q : string * kind) : bool := String.eqb (fst p) (fst q) && kind_eqb (snd p) (snd q).
Definition decl_count (p : string * kind) (l : denv) : nat := List.length (filter (decl_eqb p) l).

(** same declarations with the same multiplicities (order is not compared; duplicates matter) *)
Definition denv_eqb (a b : denv) : bool :=
  forallb (fun p => Nat.eqb (decl_count p a) (decl_count p b)) (a ++ b).

(** the real unit after a transformation is well-scoped *)
Definition chk_ws (u : unit (list stmt)) : bool := well_scopedb uses_stmts u.

(** resolve_vector_notation: the model's declarations are the real ones, the model's body is the real body
    (modulo C30's proved linear normal form of subscripts), the real result is well-scoped, and so was the input *)
Definition chk_vec (pre : unit (list M_C30.vstmt)) (post : option (unit (list stmt))) : bool :=
  match T_vec pre, post with
  | Some m, Some r =>
      well_scopedb uses_vstmts pre && vec_class pre
      && denv_eqb (u_decls m) (u_decls r) && M_C30.stmts_eqm (u_body m) (u_body r) && chk_ws r
  | None, None => true
  | _, _ => false
  end.

(** the same for an input outside the class of the theorem (tie only: declarations and body) *)
Definition chk_vec_tie (pre : unit (list M_C30.vstmt)) (post : option (unit (list stmt))) : bool :=
  match T_vec pre, post with
  | Some m, Some r => denv_eqb (u_decls m) (u_decls r) && M_C30.stmts_eqm (u_body m) (u_body r)
  | None, None => true
  | _, _ => false
  end.

Definition chk_inline (lbc : list (string * list Z)) (lrs : list lranks) (ces : list M_C28.callee)
           (pre : unit (list stmt)) (post : unit (list stmt)) : bool :=
  match T_inline_all lbc lrs ces pre with
  | Some m =>
      well_scopedb uses_stmts pre && denv_eqb (u_decls m) (u_decls post)
      && MiniF.stmts_eqb (M_C28.norm_stmts (u_body m)) (M_C28.norm_stmts (u_body post)) && chk_ws post
  | None => false
  end.

Definition chk_inline_al (al : list string) (lbc : list (string * list Z)) (lrs : list lranks) (ces : list M_C28.callee)
           (pre : unit (list stmt)) (post : unit (list stmt)) : bool :=
  match T_inline_all_al al lbc lrs ces pre with
  | Some m =>
      well_scopedb uses_stmts pre && denv_eqb (u_decls m) (u_decls post)
      && MiniF.stmts_eqb (M_C28.norm_stmts (u_body m)) (M_C28.norm_stmts (u_body post)) && chk_ws post
  | None => false
  end.

Definition chk_inline_tie (lbc : list (string * list Z)) (lrs : list lranks) (ces : list M_C28.callee)
           (pre : unit (list stmt)) (post : unit (list stmt)) : bool :=
  match T_inline_all lbc lrs ces pre with
  | Some m => denv_eqb (u_decls m) (u_decls post)
  | None => false
  end.

Definition chk_rmunused (only_arrays : bool) (pre post : unit (list stmt)) : bool :=
  well_scopedb uses_stmts pre && rm_class only_arrays pre
  && denv_eqb (u_decls (T_rmunused only_arrays pre)) (u_decls post) && chk_ws post.

(** witnesses of the defect: the model reproduces the declarations, the real output is NOT well-scoped *)
Definition chk_rmunused_bad (only_arrays : bool) (pre post : unit (list stmt)) : bool :=
  well_scopedb uses_stmts pre && negb (rm_class only_arrays pre)
  && denv_eqb (u_decls (T_rmunused only_arrays pre)) (u_decls post) && negb (chk_ws post).

Definition chk_assoc (pre : unit (list M_C29.astmt)) (post : unit (list stmt)) : bool :=
  well_scoped_ab pre && denv_eqb (u_decls (T_assoc pre)) (u_decls post)
  && MiniF.stmts_eqb (u_body (T_assoc pre)) (u_body post) && chk_ws post.

(** body-only transformations: declarations untouched, every occurrence of the new body is an occurrence of the old one *)
Definition usage_eqb (a b : usage) : bool :=
  match a, b with
  | UAny, UAny | UScal, UScal => true
  | UArr n, UArr m => Nat.eqb n m
  | _, _ => false
  end.
Definition use_eqb (a b : use) : bool := String.eqb (fst a) (fst b) && usage_eqb (snd a) (snd b).
Definition uses_incl (a b : list use) : bool := forallb (fun g => existsb (use_eqb g) b) a.

Definition chk_body (pre post : unit (list stmt)) : bool :=
  well_scopedb uses_stmts pre && denv_eqb (u_decls pre) (u_decls post)
  && uses_incl (uses_stmts (u_body post)) (uses_stmts (u_body pre)) && chk_ws post.

Fixpoint list_str_eqb (a b : list string) : bool :=
  match a, b with
  | [], [] => true
  | x :: r, y :: q => String.eqb x y && list_str_eqb r q
  | _, _ => false
  end.

Definition chk_param (succ : list string) (m : M_C39.pmode) (abort : list stmt) (entry : bool) (D : M_C39.dict)
           (ext : denv) (u : M_C39.unit) (post : unit (list stmt)) : bool :=
  let t := T_param (fun g => mem g succ) m abort entry D ext u in
  well_scopedb uses_stmts (unit_of_c39 ext u) && param_class m abort entry D ext u && param_extra entry D u
  && denv_eqb (u_decls t) (u_decls post) && list_str_eqb (u_args t) (u_args post) && chk_ws post.
