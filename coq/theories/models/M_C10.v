(** C10 — loop-range helpers vs Fortran DO-loop semantics.  Definitions only. *)
From Coq Require Import ZArith List Bool.
Import ListNotations.
Open Scope Z_scope.

(** Fortran 2008 8.1.6.6.2: iteration count = MAX(INT((m2 - m1 + m3)/m3), 0),
    the DO variable takes m1, m1+m3, ... *)
Definition trip_count (a b s : Z) : Z := Z.max 0 (Z.quot (b - a + s) s).

Fixpoint iota_steps (n : nat) (a s : Z) : list Z :=
  match n with
  | O => []
  | S k => a :: iota_steps k (a + s) s
  end.

Definition do_trips (a b s : Z) : list Z :=
  iota_steps (Z.to_nat (trip_count a b s)) a s.

(** Python [range(a, e, s)] (CPython's length formula, floor division). *)
Definition py_range_len (a e s : Z) : Z :=
  if 0 <? s then (if a <? e then (e - a - 1) / s + 1 else 0)
  else (if e <? a then (a - e - 1) / (- s) + 1 else 0).

Definition py_range (a e s : Z) : list Z :=
  iota_steps (Z.to_nat (py_range_len a e s)) a s.

(** [get_pyrange] as written in loki/expression/symbolic.py (after the fix
    commit: inclusive stop in the direction of the step). *)
Definition get_pyrange (a b s : Z) : list Z :=
  py_range a (if 0 <? s then b + 1 else b - 1) s.

(** The unrepaired variant, kept to state what was wrong (F5). *)
Definition get_pyrange_old (a b s : Z) : list Z := py_range a (b + 1) s.

(** Values of the expressions built by LoopRange.num_iterations,
    iteration_number, iteration_index under Fortran integer arithmetic
    (Quotient = truncating division). *)
Definition num_iterations (a b s : Z) : Z := Z.quot (b - a) s + 1.
Definition iteration_number (i a s : Z) : Z := Z.quot (i - a) s + 1.
Definition iteration_index (k a s : Z) : Z := (k - 1) * s + a.

(** normalized = LoopRange(1, num_iterations) with implicit step 1 *)
Definition normalized_trips (a b s : Z) : list Z := do_trips 1 (num_iterations a b s) 1.

Definition nonempty (a b s : Z) : bool := 0 <? trip_count a b s.

(** correspondence entry points (boolean comparators evaluated by vm_compute) *)
Definition eqb_listZ (x y : list Z) : bool :=
  (Nat.eqb (length x) (length y)) && forallb (fun p => Z.eqb (fst p) (snd p)) (combine x y).

Definition chk_pyrange (a b s : Z) (impl : list Z) : bool := eqb_listZ (get_pyrange a b s) impl.
Definition chk_numiter (a b s : Z) (impl : Z) : bool := Z.eqb (num_iterations a b s) impl.
Definition chk_iternum (i a s : Z) (impl : Z) : bool := Z.eqb (iteration_number i a s) impl.
Definition chk_iteridx (k a s : Z) (impl : Z) : bool := Z.eqb (iteration_index k a s) impl.
