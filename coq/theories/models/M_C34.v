(** C34 — model of the call-signature rewrites of Loki on the MiniF syntax, with a BY-REFERENCE semantics.

    Anchors: loki/transformations/routine_signatures.py (RemoveDuplicateArgs),
    loki/transformations/sanitise/sequence_associations.py (do_resolve_sequence_association),
    loki/transformations/argument_shape.py (ArgumentArrayShapeAnalysis + ExplicitArgumentArrayShapeTransformation),
    loki/transformations/transform_derived_types.py (DerivedTypeArgumentsTransformation,
    TypeboundProcedureCallTransformation).

    Part A (semantics).  The shared MiniF interpreter passes arguments by copy-in/copy-out and only accepts
    whole variables for array dummies, so it cannot express what these rewrites are about: two dummies bound to
    one actual (one cell), an array ELEMENT passed to an array dummy (sequence association), array sections,
    assumed-shape/assumed-size dummies, derived-type components.  This file therefore gives the shared syntax
    ([stmt], [expr]) a by-reference semantics [rexec]:
    - memory cells are [(depth, name)]; a frame maps the names of the running procedure to cells
      ([sref]: a scalar cell or one element of a root array) and to array views ([aref]: root array, the
      bounds the procedure sees, and the map from the indices it uses to the root array's indices);
    - array accesses are bounds-checked against the bounds of the view (out of bounds = run-time error);
    - CALL builds the callee frame [bind]: scalar dummies refer to the caller's cell for variable / array
      element actuals and to a fresh temporary for expression actuals; array dummies are laid over the
      ELEMENT SEQUENCE of the actual (whole array, section [a(lo:hi, j)], or the elements following an
      element [a(i,j)] in array element order), through [lin]/[delin]; explicit-shape and assumed-size
      dummies must not be larger than that sequence; assumed-shape dummies take the extents of the actual with
      lower bound 1 (a rank mismatch is not detected here but at the first access: every access is checked against
      the rank and the bounds of the view); a derived-type dummy [x] forwards every name [x%path] to the caller's [t%path];
      locals of the callee are zero-initialised cells of the callee's depth.
    Section syntax is encoded in [expr]: [a(lo:hi, j)] is [ECall "a" [ECall ":" [lo; hi]; j]].
    Derived-type components are ordinary names containing '%'.

    Part B (the rewrites, as the code performs them, on call trees given as lists of units in the order in
    which the Scheduler processes them): [dedup_tree], [seqassoc_unit], [shape_tree], [dt_tree], [tb_unit].

    Part C: boolean comparators [chk_*] used by the correspondence run. *)
From Coq Require Import ZArith List Bool String Ascii.
From LV Require Import Base.Expr Base.MiniF.
Import ListNotations.
Open Scope Z_scope.

(* ================================================================================================ *)
(** * A. By-reference semantics *)

Definition loc := (nat * string)%type.
Definition loc_eqb (a b : loc) : bool := Nat.eqb (fst a) (fst b) && String.eqb (snd a) (snd b).

Record rstore := { rsv : loc -> Z; rav : loc -> list Z -> Z }.
Definition rempty : rstore := {| rsv := fun _ => 0; rav := fun _ _ => 0 |}.
Definition set_rsv (l : loc) (v : Z) (s : rstore) : rstore :=
  {| rsv := fun m => if loc_eqb m l then v else rsv s m; rav := rav s |}.
Definition set_rav (l : loc) (i : list Z) (v : Z) (s : rstore) : rstore :=
  {| rsv := rsv s; rav := fun m j => if loc_eqb m l && list_z_eqb j i then v else rav s m j |}.
(** entering a procedure at depth [d]: its own cells start at zero *)
Definition clear_depth (d : nat) (s : rstore) : rstore :=
  {| rsv := fun m => if Nat.eqb (fst m) d then 0 else rsv s m;
     rav := fun m j => if Nat.eqb (fst m) d then 0 else rav s m j |}.

Inductive sref := RCell (l : loc) | RElem (l : loc) (i : list Z).
Definition read_s (s : rstore) (r : sref) : Z :=
  match r with RCell l => rsv s l | RElem l i => rav s l i end.
Definition write_s (r : sref) (v : Z) (s : rstore) : rstore :=
  match r with RCell l => set_rsv l v s | RElem l i => set_rav l i v s end.

Definition bounds := list (Z * Z).
Record aref := { ar_loc : loc; ar_bnd : bounds; ar_view : list Z -> list Z }.
Record frame := { fs : string -> sref; fa : string -> aref }.

Fixpoint in_bnd (b : bounds) (i : list Z) : bool :=
  match b, i with
  | [], [] => true
  | p :: b', x :: i' => (fst p <=? x) && (x <=? snd p) && in_bnd b' i'
  | _, _ => false
  end.

Definition extent (p : Z * Z) : Z := Z.max 0 (snd p - fst p + 1).
Fixpoint bsize (b : bounds) : Z := match b with [] => 1 | p :: r => extent p * bsize r end.

(** position in array element order (column major) and its inverse; the last dimension is not wrapped *)
Fixpoint lin (b : bounds) (i : list Z) : Z :=
  match b, i with
  | p :: b', x :: i' => (x - fst p) + extent p * lin b' i'
  | _, _ => 0
  end.
Fixpoint delin (b : bounds) (o : Z) : list Z :=
  match b with
  | [] => []
  | p :: b' =>
      match b' with
      | [] => [fst p + o]
      | _ => (fst p + o mod extent p) :: delin b' (o / extent p)
      end
  end.

(** names with a fixed meaning in expressions: the five intrinsics of [Expr.intrinsic] and the range marker *)
Definition reserved (f : string) : bool :=
  String.eqb f ":" || String.eqb f "mod" || String.eqb f "modulo" || String.eqb f "abs"
  || String.eqb f "min" || String.eqb f "max".

Definition renv (fr : frame) (s : rstore) : env :=
  {| ev_var := fun x => read_s s (fs fr x);
     ev_fun := fun a i => let r := fa fr a in
                          if in_bnd (ar_bnd r) i then Some (rav s (ar_loc r) (ar_view r i)) else None |}.

(** ** actual arguments as element sequences *)
Inductive adim := AIdx (i : Z) | ARng (lo hi : Z).

Definition eval_adim (rho : env) (e : expr) : option adim :=
  match e with
  | ECall f [lo; hi] =>
      if String.eqb f ":" then obind (evalZ rho lo) (fun a => obind (evalZ rho hi) (fun b => Some (ARng a b)))
      else obind (evalZ rho e) (fun v => Some (AIdx v))
  | _ => obind (evalZ rho e) (fun v => Some (AIdx v))
  end.

Fixpoint all_idx (ds : list adim) : option (list Z) :=
  match ds with
  | [] => Some []
  | AIdx i :: r => match all_idx r with Some l => Some (i :: l) | None => None end
  | ARng _ _ :: _ => None
  end.

Fixpoint sect_bnd (ds : list adim) : bounds :=
  match ds with [] => [] | AIdx _ :: r => sect_bnd r | ARng lo hi :: r => (lo, hi) :: sect_bnd r end.

(** indices of the section element whose range coordinates are [k] *)
Fixpoint fill (ds : list adim) (k : list Z) : list Z :=
  match ds with
  | [] => []
  | AIdx i :: r => i :: fill r k
  | ARng _ _ :: r => match k with x :: k' => x :: fill r k' | [] => [] end
  end.

(** every subscript / non-empty range lies inside the declared bounds *)
Fixpoint adims_ok (b : bounds) (ds : list adim) : bool :=
  match b, ds with
  | [], [] => true
  | p :: b', AIdx i :: r => (fst p <=? i) && (i <=? snd p) && adims_ok b' r
  | p :: b', ARng lo hi :: r => ((hi <? lo) || ((fst p <=? lo) && (hi <=? snd p))) && adims_ok b' r
  | _, _ => false
  end.

Record aseq := { sq_loc : loc; sq_len : Z; sq_at : Z -> list Z; sq_ext : list Z }.

(** the element sequence of an actual: [at_] is only meaningful for offsets [0 <= o < len] (clamped outside, so
    that two descriptions of the same sequence are pointwise equal) *)
Definition mk_aseq (l : loc) (len : Z) (at_ : Z -> list Z) (ext : list Z) : aseq :=
  {| sq_loc := l; sq_len := len; sq_at := fun o => if (0 <=? o) && (o <? len) then at_ o else []; sq_ext := ext |}.

Definition actual_seq (fr : frame) (s : rstore) (e : expr) : option aseq :=
  match e with
  | EVar a =>
      let r := fa fr a in
      Some (mk_aseq (ar_loc r) (bsize (ar_bnd r)) (fun o => ar_view r (delin (ar_bnd r) o)) (map extent (ar_bnd r)))
  | ECall a ds =>
      if reserved a then None else
      let r := fa fr a in
      obind (omap_list (eval_adim (renv fr s)) ds) (fun ads =>
        match all_idx ads with
        | Some i =>
            if in_bnd (ar_bnd r) i then
              Some (mk_aseq (ar_loc r) (bsize (ar_bnd r) - lin (ar_bnd r) i)
                            (fun o => ar_view r (delin (ar_bnd r) (lin (ar_bnd r) i + o))) [])
            else None
        | None =>
            if adims_ok (ar_bnd r) ads then
              Some (mk_aseq (ar_loc r) (bsize (sect_bnd ads))
                            (fun o => ar_view r (fill ads (delin (sect_bnd ads) o))) (map extent (sect_bnd ads)))
            else None
        end)
  | _ => None
  end.

(** ** procedures *)
Inductive dim := DExpl (lo hi : expr) | DShape | DSize (lo : expr).
Inductive pkind := PScal | PArr (dims : list dim) | PRec (ty : string).

Record rproc := { rp_params : list (string * pkind);
                  rp_arrays : list (string * list (expr * expr));      (* local arrays with their bounds *)
                  rp_body : list stmt }.
Definition rprocs := list (string * rproc).

Fixpoint find_rproc (ps : rprocs) (f : string) : option rproc :=
  match ps with
  | [] => None
  | (g, p) :: r => if String.eqb g f then Some p else find_rproc r f
  end.

Definition is_shape (d : dim) : bool := match d with DShape => true | _ => false end.

(** bounds of an explicit-shape / assumed-size dummy laid over a sequence of [len] elements *)
Fixpoint expl_bnd (rho : env) (len : Z) (dims : list dim) (acc : Z) : option bounds :=
  match dims with
  | [] => Some []
  | DExpl lo hi :: r =>
      obind (evalZ rho lo) (fun a => obind (evalZ rho hi) (fun b =>
        obind (expl_bnd rho len r (acc * extent (a, b))) (fun t => Some ((a, b) :: t))))
  | DSize lo :: r =>
      match r with
      | [] => obind (evalZ rho lo) (fun a => if acc <=? 0 then None else Some [(a, a + len / acc - 1)])
      | _ => None
      end
  | DShape :: _ => None
  end.

Definition dummy_bnd (rho : env) (sq : aseq) (dims : list dim) : option bounds :=
  if forallb is_shape dims then Some (map (fun n => (1, n)) (sq_ext sq))
  else expl_bnd rho (sq_len sq) dims 1.

Definition mk_aref (sq : aseq) (b : bounds) : aref :=
  {| ar_loc := sq_loc sq; ar_bnd := b; ar_view := fun k => if in_bnd b k then sq_at sq (lin b k) else [] |}.

Fixpoint split_pct (z : string) : option (string * string) :=
  match z with
  | EmptyString => None
  | String c r =>
      if Ascii.eqb c "%"%char then Some (EmptyString, r)
      else match split_pct r with Some (a, b) => Some (String c a, b) | None => None end
  end.
Definition join_pct (root rest : string) : string := (root ++ String "%"%char rest)%string.

Definition pargs := list ((string * pkind) * expr).
Fixpoint lookup_pa (z : string) (pa : pargs) : option (pkind * expr) :=
  match pa with
  | [] => None
  | ((x, k), e) :: r => if String.eqb x z then Some (k, e) else lookup_pa z r
  end.

Definition sref_of (fr : frame) (s : rstore) (e : expr) (dflt : loc) : sref :=
  match e with
  | EVar x => fs fr x
  | ECall a idx =>
      if reserved a then RCell dflt else
      match omap_list (evalZ (renv fr s)) idx with
      | Some i => if in_bnd (ar_bnd (fa fr a)) i then RElem (ar_loc (fa fr a)) (ar_view (fa fr a) i) else RCell dflt
      | None => RCell dflt
      end
  | _ => RCell dflt
  end.

(** [None]: run-time error; [Some None]: passed by reference; [Some (Some v)]: temporary holding [v] *)
Definition scalar_init (fr : frame) (s : rstore) (e : expr) : option (option Z) :=
  match e with
  | EVar _ => Some None
  | ECall a idx =>
      if reserved a then obind (evalZ (renv fr s) e) (fun v => Some (Some v))
      else obind (omap_list (evalZ (renv fr s)) idx) (fun i =>
             if in_bnd (ar_bnd (fa fr a)) i then Some None else None)
  | _ => obind (evalZ (renv fr s) e) (fun v => Some (Some v))
  end.

Definition is_var (e : expr) : bool := match e with EVar _ => true | _ => false end.

Fixpoint init_scalars (d : nat) (fr : frame) (s : rstore) (pa : pargs) (s0 : rstore) : option rstore :=
  match pa with
  | [] => Some s0
  | ((z, PScal), e) :: r =>
      obind (scalar_init fr s e) (fun o =>
        init_scalars d fr s r (match o with Some v => set_rsv (d, z) v s0 | None => s0 end))
  | ((z, PRec _), e) :: r => if is_var e then init_scalars d fr s r s0 else None
  | ((z, PArr _), e) :: r => init_scalars d fr s r s0
  end.

Definition forward_root (pa : pargs) (z : string) : option string :=
  match split_pct z with
  | Some (root, rest) =>
      match lookup_pa root pa with
      | Some (PRec _, EVar t) => Some (join_pct t rest)
      | _ => None
      end
  | None => None
  end.

Definition callee_fs (d : nat) (fr : frame) (s : rstore) (pa : pargs) (z : string) : sref :=
  match lookup_pa z pa with
  | Some (PScal, e) => sref_of fr s e (d, z)
  | Some (PArr _, _) => RCell (d, EmptyString)       (* an array dummy used as a scalar (ill-typed): one junk cell *)
  | Some (PRec _, _) => RCell (d, z)
  | None => match forward_root pa z with Some t => fs fr t | None => RCell (d, z) end
  end.

Definition scal_env (fsf : string -> sref) (s : rstore) : env :=
  {| ev_var := fun x => read_s s (fsf x); ev_fun := fun _ _ => None |}.

Definition dead_aref (l : loc) : aref := {| ar_loc := l; ar_bnd := []; ar_view := fun k => k |}.

Fixpoint eval_bnds (rho : env) (bs : list (expr * expr)) : option bounds :=
  match bs with
  | [] => Some []
  | (lo, hi) :: r =>
      obind (evalZ rho lo) (fun a => obind (evalZ rho hi) (fun b => obind (eval_bnds rho r) (fun t => Some ((a, b) :: t))))
  end.

Fixpoint assoc_s {A} (l : list (string * A)) (x : string) : option A :=
  match l with
  | [] => None
  | (k, v) :: r => if String.eqb k x then Some v else assoc_s r x
  end.

(** the same view, with the index map cut off outside the bounds (accesses are bounds-checked anyway) *)
Definition clamp_aref (r : aref) : aref :=
  {| ar_loc := ar_loc r; ar_bnd := ar_bnd r; ar_view := fun k => if in_bnd (ar_bnd r) k then ar_view r k else [] |}.

Definition local_aref (d : nat) (cenv : env) (arrays : list (string * list (expr * expr))) (z : string) : aref :=
  match assoc_s arrays z with
  | Some bs => match eval_bnds cenv bs with
               | Some b => {| ar_loc := (d, z); ar_bnd := b; ar_view := fun k => k |}
               | None => dead_aref (d, z)
               end
  | None => dead_aref (d, z)
  end.

Definition callee_fa (d : nat) (fr : frame) (s : rstore) (cenv : env) (pa : pargs)
           (arrays : list (string * list (expr * expr))) (z : string) : aref :=
  match lookup_pa z pa with
  | Some (PArr dims, e) =>
      match actual_seq fr s e with
      | Some sq => match dummy_bnd cenv sq dims with Some b => mk_aref sq b | None => dead_aref (d, EmptyString) end
      | None => dead_aref (d, EmptyString)
      end
  | Some (PScal, _) => dead_aref (d, EmptyString)    (* a scalar dummy used as an array (ill-typed): a view without elements *)
  | Some (PRec _, _) => dead_aref (d, z)
  | None => match forward_root pa z with Some t => clamp_aref (fa fr t) | None => local_aref d cenv arrays z end
  end.

Fixpoint arrays_ok (fr : frame) (s : rstore) (cenv : env) (pa : pargs) : bool :=
  match pa with
  | [] => true
  | ((z, PArr dims), e) :: r =>
      match actual_seq fr s e with
      | Some sq => match dummy_bnd cenv sq dims with
                   | Some b => (bsize b <=? sq_len sq) && arrays_ok fr s cenv r
                   | None => false
                   end
      | None => false
      end
  | _ :: r => arrays_ok fr s cenv r
  end.

Fixpoint locals_ok (cenv : env) (arrays : list (string * list (expr * expr))) : bool :=
  match arrays with
  | [] => true
  | (_, bs) :: r => match eval_bnds cenv bs with Some _ => locals_ok cenv r | None => false end
  end.

Definition bind (d : nat) (fr : frame) (s : rstore) (p : rproc) (args : list expr) : option (frame * rstore) :=
  if negb (Nat.eqb (List.length args) (List.length (rp_params p))) then None else
  let pa := combine (rp_params p) args in
  obind (init_scalars d fr s pa (clear_depth d s)) (fun s0 =>
    let fsc := callee_fs d fr s pa in
    let cenv := scal_env fsc s0 in
    if arrays_ok fr s cenv pa && locals_ok cenv (rp_arrays p) then
      Some ({| fs := fsc; fa := callee_fa d fr s cenv pa (rp_arrays p) |}, s0)
    else None).

(** ** the interpreter *)
Fixpoint rdo_loop (run : rstore -> option rstore) (v : sref) (dl : Z) (n : nat) (i : Z) (s : rstore) : option rstore :=
  match n with
  | O => Some (write_s v i s)
  | S k => obind (run (write_s v i s)) (fun s2 => rdo_loop run v dl k (i + dl) s2)
  end.

Definition rexec1 (rexec : nat -> frame -> list stmt -> rstore -> option rstore)
           (ps : rprocs) (d : nat) (fr : frame) (st : stmt) (s : rstore) : option rstore :=
  match st with
  | SAssign x e => obind (evalZ (renv fr s) e) (fun v => Some (write_s (fs fr x) v s))
  | SStore a idx e =>
      obind (omap_list (evalZ (renv fr s)) idx) (fun i =>
      obind (evalZ (renv fr s) e) (fun v =>
        let r := fa fr a in
        if in_bnd (ar_bnd r) i then Some (set_rav (ar_loc r) (ar_view r i) v s) else None))
  | SDo v lo hi stp body =>
      obind (evalZ (renv fr s) lo) (fun a =>
      obind (evalZ (renv fr s) hi) (fun b =>
      obind (match stp with None => Some 1 | Some e => evalZ (renv fr s) e end) (fun dl =>
        if dl =? 0 then None else
        rdo_loop (rexec d fr body) (fs fr v) dl (Z.to_nat (trip_count a b dl)) a s)))
  | SWhile c body =>
      obind (evalB (renv fr s) c) (fun b =>
        if b then obind (rexec d fr body s) (fun s1 => rexec d fr [SWhile c body] s1) else Some s)
  | SIf c tb eb => obind (evalB (renv fr s) c) (fun b => rexec d fr (if b then tb else eb) s)
  | SCall g args =>
      obind (find_rproc ps g) (fun p =>
      obind (bind (S d) fr s p args) (fun c => rexec (S d) (fst c) (rp_body p) (snd c)))
  | SSkip _ => Some s
  end.

Fixpoint rexec (ps : rprocs) (fuel : nat) (d : nat) (fr : frame) (ss : list stmt) (s : rstore) {struct fuel} : option rstore :=
  match fuel with
  | O => None
  | S f =>
      match ss with
      | [] => Some s
      | st :: rest => obind (rexec1 (rexec ps f) ps d fr st s) (fun s' => rexec ps f d fr rest s')
      end
  end.

(** the frame of a main unit (depth 0): every name is its own cell, arrays have their declared bounds *)
Definition top_frame (arrays : list (string * bounds)) : frame :=
  {| fs := fun x => RCell (O, x);
     fa := fun a => match assoc_s arrays a with
                    | Some b => {| ar_loc := (O, a); ar_bnd := b; ar_view := fun k => k |}
                    | None => dead_aref (O, a)
                    end |}.

Fixpoint rinit_cells (cells : list (string * list Z * Z)) : rstore :=
  match cells with
  | [] => rempty
  | (a, i, v) :: r => set_rav (O, a) i v (rinit_cells r)
  end.
Fixpoint rinit (scal : list (string * Z)) (cells : list (string * list Z * Z)) : rstore :=
  match scal with
  | (x, v) :: r => set_rsv (O, x) v (rinit r cells)
  | [] => rinit_cells cells
  end.
Definition robserve (s : rstore) (scal : list string) (cells : list (string * list Z)) : list Z :=
  map (fun x => rsv s (O, x)) scal ++ map (fun c => rav s (O, fst c) (snd c)) cells.

(** run the main unit [body] (its arguments are the cells of depth 0) *)
Definition rrun (ps : rprocs) (fuel : nat) (arrays : list (string * bounds)) (body : list stmt)
           (scal0 : list (string * Z)) (cells0 : list (string * list Z * Z))
           (oscal : list string) (ocells : list (string * list Z)) : option (list Z) :=
  match rexec ps fuel O (top_frame arrays) body (rinit scal0 cells0) with
  | Some s => Some (robserve s oscal ocells)
  | None => None
  end.

(* ================================================================================================ *)
(** * A2. Renaming of names, rewriting of call argument lists, names occurring in code *)

Fixpoint ren_e (r : string -> string) (e : expr) : expr :=
  match e with
  | EInt v => EInt v
  | EPy v => EPy v
  | EVar x => EVar (r x)
  | ELog b => ELog b
  | ESum p cs => ESum p (map (ren_e r) cs)
  | EProd p cs => EProd p (map (ren_e r) cs)
  | EQuot p n d => EQuot p (ren_e r n) (ren_e r d)
  | EPow p b x => EPow p (ren_e r b) (ren_e r x)
  | ECmp op l q => ECmp op (ren_e r l) (ren_e r q)
  | EAnd cs => EAnd (map (ren_e r) cs)
  | EOr cs => EOr (map (ren_e r) cs)
  | ENot x => ENot (ren_e r x)
  | ECall f args => ECall (r f) (map (ren_e r) args)
  end.

Fixpoint ren_s (r : string -> string) (st : stmt) : stmt :=
  match st with
  | SAssign x e => SAssign (r x) (ren_e r e)
  | SStore a i e => SStore (r a) (map (ren_e r) i) (ren_e r e)
  | SDo v lo hi stp b => SDo (r v) (ren_e r lo) (ren_e r hi) (option_map (ren_e r) stp) (map (ren_s r) b)
  | SWhile c b => SWhile (ren_e r c) (map (ren_s r) b)
  | SIf c t e => SIf (ren_e r c) (map (ren_s r) t) (map (ren_s r) e)
  | SCall f a => SCall f (map (ren_e r) a)
  | SSkip l => SSkip l
  end.
Definition ren (r : string -> string) (ss : list stmt) : list stmt := map (ren_s r) ss.

(** rewrite the actual argument list of every CALL ([tc callee args]) *)
Fixpoint tcall_s (tc : string -> list expr -> list expr) (st : stmt) : stmt :=
  match st with
  | SDo v lo hi stp b => SDo v lo hi stp (map (tcall_s tc) b)
  | SWhile c b => SWhile c (map (tcall_s tc) b)
  | SIf c t e => SIf c (map (tcall_s tc) t) (map (tcall_s tc) e)
  | SCall f a => SCall f (tc f a)
  | other => other
  end.
Definition tcalls (tc : string -> list expr -> list expr) (ss : list stmt) : list stmt := map (tcall_s tc) ss.

Fixpoint names_e (e : expr) : list string :=
  match e with
  | EVar x => [x]
  | ESum _ cs | EProd _ cs | EAnd cs | EOr cs => flat_map names_e cs
  | EQuot _ a b | EPow _ a b | ECmp _ a b => names_e a ++ names_e b
  | ENot a => names_e a
  | ECall f args => f :: flat_map names_e args
  | _ => []
  end.

Fixpoint names_s (st : stmt) : list string :=
  match st with
  | SAssign x e => x :: names_e e
  | SStore a i e => a :: flat_map names_e i ++ names_e e
  | SDo v lo hi stp b =>
      v :: names_e lo ++ names_e hi ++ (match stp with Some e => names_e e | None => [] end) ++ flat_map names_s b
  | SWhile c b => names_e c ++ flat_map names_s b
  | SIf c t e => names_e c ++ flat_map names_s t ++ flat_map names_s e
  | SCall f a => flat_map names_e a
  | SSkip _ => []
  end.
Definition names (ss : list stmt) : list string := flat_map names_s ss.

(** a predicate on every CALL site nested in a statement *)
Fixpoint sites_s (P : string -> list expr -> Prop) (st : stmt) : Prop :=
  let fix go (l : list stmt) : Prop := match l with [] => True | x :: r => sites_s P x /\ go r end in
  match st with
  | SDo _ _ _ _ b => go b
  | SWhile _ b => go b
  | SIf _ t e => go t /\ go e
  | SCall g a => P g a
  | _ => True
  end.
Fixpoint sites (P : string -> list expr -> Prop) (ss : list stmt) : Prop :=
  match ss with [] => True | x :: r => sites_s P x /\ sites P r end.

(** two views of the same root array with the same bounds and the same index map *)
Definition aref_agree (a1 a2 : aref) : Prop :=
  ar_loc a1 = ar_loc a2 /\ ar_bnd a1 = ar_bnd a2 /\ forall i, ar_view a1 i = ar_view a2 i.

(** frame [fr1] is frame [fr2] after renaming by [r], on the names in [N] *)
Definition frel (r : string -> string) (N : string -> Prop) (fr1 fr2 : frame) : Prop :=
  forall x, N x -> fs fr1 x = fs fr2 (r x) /\ aref_agree (fa fr1 x) (fa fr2 (r x)).

(** renamings never touch (or produce) the reserved names *)
Definition ren_ok (r : string -> string) : Prop :=
  forall f, reserved (r f) = reserved f /\ (reserved f = true -> r f = f).

Definition no_rec (p : rproc) : bool :=
  forallb (fun q => match snd q with PRec _ => false | _ => true end) (rp_params p).


(* ================================================================================================ *)
(** * B. The rewrites, as the code performs them *)

(** a routine as the transformations see it: dummies with their kind, local arrays, body *)
Record unit := { u_name : string; u_params : list (string * pkind);
                 u_locals : list (string * list dim); u_body : list stmt }.
Definition table := list unit.

Fixpoint find_unit (t : table) (g : string) : option unit :=
  match t with [] => None | u :: r => if String.eqb (u_name u) g then Some u else find_unit r g end.
Definition mem_unit (t : table) (g : string) : bool := match find_unit t g with Some _ => true | None => false end.
Fixpoint set_unit (t : table) (u : unit) : table :=
  match t with [] => [] | v :: r => if String.eqb (u_name v) (u_name u) then u :: r else v :: set_unit r u end.

Definition with_body (u : unit) (b : list stmt) : unit :=
  {| u_name := u_name u; u_params := u_params u; u_locals := u_locals u; u_body := b |}.
Definition with_params (u : unit) (p : list (string * pkind)) : unit :=
  {| u_name := u_name u; u_params := p; u_locals := u_locals u; u_body := u_body u |}.

Fixpoint expl_bounds (ds : list dim) : list (expr * expr) :=
  match ds with DExpl lo hi :: r => (lo, hi) :: expl_bounds r | _ => [] end.
Definition to_rproc (u : unit) : rproc :=
  {| rp_params := u_params u; rp_arrays := map (fun l => (fst l, expl_bounds (snd l))) (u_locals u); rp_body := u_body u |}.
Definition to_rprocs (t : table) : rprocs := map (fun u => (u_name u, to_rproc u)) t.

(** CALL statements in visiting order (FindNodes(CallStatement): pre-order) *)
Fixpoint calls_s (st : stmt) : list (string * list expr) :=
  match st with
  | SCall g a => [(g, a)]
  | SDo _ _ _ _ b => flat_map calls_s b
  | SWhile _ b => flat_map calls_s b
  | SIf _ t e => flat_map calls_s t ++ flat_map calls_s e
  | _ => []
  end.
Definition calls (ss : list stmt) : list (string * list expr) := flat_map calls_s ss.

(** python dict assignment [d[k] = v]: an existing key keeps its position *)
Fixpoint dset {A} (m : list (string * A)) (k : string) (v : A) : list (string * A) :=
  match m with
  | [] => [(k, v)]
  | (k', v') :: r => if String.eqb k' k then (k', v) :: r else (k', v') :: dset r k v
  end.

Definition rmap := list (string * string).
Definition rn (m : rmap) (x : string) : string := match assoc_s m x with Some y => y | None => x end.
Definition in_dom (m : rmap) (x : string) : bool := match assoc_s m x with Some _ => true | None => false end.

(* ------------------------------------------------------------------------------------------------ *)
(** ** B1. RemoveDuplicateArgs *)

Definition dgroup := (expr * list string)%type.
Fixpoint am_add (m : list dgroup) (e : expr) (d : string) : list dgroup :=
  match m with
  | [] => [(e, [d])]
  | (e', ds) :: r => if expr_eqb e' e then (e', ds ++ [d]) :: r else (e', ds) :: am_add r e d
  end.
(** [arg_map.setdefault(call_arg, []).append(routine_arg)] over [zip(routine.arguments, call.arguments)] *)
Fixpoint arg_map (params : list string) (args : list expr) (m : list dgroup) : list dgroup :=
  match params, args with
  | p :: ps, a :: r => arg_map ps r (am_add m a p)
  | _, _ => m
  end.
(** [dict.fromkeys(call.arguments)] *)
Fixpoint dedup_exprs (seen : list expr) (args : list expr) : list expr :=
  match args with
  | [] => []
  | a :: r => if existsb (expr_eqb a) seen then dedup_exprs seen r else a :: dedup_exprs (a :: seen) r
  end.

(** the renaming of the callee body as [SubstituteExpressions(var_map)] performs it: the map has one entry per
    variable OCCURRENCE (keyed by the whole expression node), so an array reference whose name is renamed is
    replaced as a whole, by a clone that keeps the ORIGINAL subscripts — renamed names inside the subscripts of a
    renamed array are missed *)
Fixpoint renl_e (m : rmap) (e : expr) : expr :=
  match e with
  | EInt v => EInt v
  | EPy v => EPy v
  | EVar x => EVar (rn m x)
  | ELog b => ELog b
  | ESum p cs => ESum p (map (renl_e m) cs)
  | EProd p cs => EProd p (map (renl_e m) cs)
  | EQuot p n d => EQuot p (renl_e m n) (renl_e m d)
  | EPow p b x => EPow p (renl_e m b) (renl_e m x)
  | ECmp op l q => ECmp op (renl_e m l) (renl_e m q)
  | EAnd cs => EAnd (map (renl_e m) cs)
  | EOr cs => EOr (map (renl_e m) cs)
  | ENot x => ENot (renl_e m x)
  | ECall f args => if in_dom m f then ECall (rn m f) args else ECall f (map (renl_e m) args)
  end.
Fixpoint renl_s (m : rmap) (st : stmt) : stmt :=
  match st with
  | SAssign x e => SAssign (rn m x) (renl_e m e)
  | SStore a i e => if in_dom m a then SStore (rn m a) i (renl_e m e) else SStore a (map (renl_e m) i) (renl_e m e)
  | SDo v lo hi stp b => SDo (rn m v) (renl_e m lo) (renl_e m hi) (option_map (renl_e m) stp) (map (renl_s m) b)
  | SWhile c b => SWhile (renl_e m c) (map (renl_s m) b)
  | SIf c t e => SIf (renl_e m c) (map (renl_s m) t) (map (renl_s m) e)
  | SCall f a => SCall f (map (renl_e m) a)
  | SSkip l => SSkip l
  end.
Definition renl (m : rmap) (ss : list stmt) : list stmt := map (renl_s m) ss.

(** [modify_callee]: groups with more than one dummy; all but the first are redundant *)
Definition group_rmap (g : dgroup) : rmap :=
  match snd g with d0 :: rest => map (fun y => (y, d0)) rest | [] => [] end.
Definition am_rmap (am : list dgroup) : rmap := flat_map group_rmap am.

Definition modify_callee (t : table) (g : string) (am : list dgroup) : table :=
  match find_unit t g with
  | None => t
  | Some u =>
      let m := am_rmap am in
      set_unit t {| u_name := u_name u;
                    u_params := filter (fun p => negb (in_dom m (fst p))) (u_params u);
                    u_locals := u_locals u;
                    u_body := renl m (u_body u) |}
  end.

(** [remove_duplicate_args_from_calls(routine)] on the current state of the tree *)
Definition dedup_unit (t : table) (name : string) : table :=
  match find_unit t name with
  | None => t
  | Some u =>
      let cs := filter (fun c => mem_unit t (fst c)) (calls (u_body u)) in
      let maps := fold_left (fun acc c =>
                    match find_unit t (fst c) with
                    | Some g => dset acc (fst c) (arg_map (map fst (u_params g)) (snd c) [])
                    | None => acc
                    end) cs [] in
      let t1 := set_unit t (with_body u (tcalls (fun g a => if mem_unit t g then dedup_exprs [] a else a) (u_body u))) in
      fold_left (fun tt gm => modify_callee tt (fst gm) (snd gm)) maps t1
  end.

(** the Scheduler applies it to the routines in [order]; without [recurse_to_kernels] only to the driver *)
Definition dedup_tree (recurse : bool) (driver : string) (order : list string) (t : table) : table :=
  fold_left (fun tt n => if recurse || String.eqb n driver then dedup_unit tt n else tt) order t.

(* ------------------------------------------------------------------------------------------------ *)
(** ** B2. do_resolve_sequence_association *)

Definition is_range (e : expr) : bool := match e with ECall f _ => String.eqb f ":" | _ => false end.

(** [RangeIndex((lower, s.stop))] / [RangeIndex((lower, s))] for one dimension [s] of the actual's shape *)
Definition seq_dim (d : dim) (lower : expr) : expr :=
  match d with
  | DExpl _ hi => ECall ":" [lower; hi]
  | DShape => ECall ":" [lower]
  | DSize _ => ECall ":" [lower; EVar "*"]
  end.

Fixpoint map2 {A B C} (f : A -> B -> C) (l1 : list A) (l2 : list B) : list C :=
  match l1, l2 with a :: r1, b :: r2 => f a b :: map2 f r1 r2 | _, _ => [] end.

(** shapes of the arrays visible in the caller: [Some dims], or [None] for an array whose shape is unknown *)
Definition shapes := list (string * option (list dim)).

Definition seq_arg (sh : shapes) (k : pkind) (arg : expr) : option expr :=
  match k, arg with
  | PArr ddims, ECall a ds =>
      if reserved a then None else
      match assoc_s sh a with
      | None => None                                   (* not an array *)
      | Some oshape =>
          match ds with [] => None | _ =>
          if existsb is_range ds then None else
          let n := List.length ddims in
          match oshape with
          | None => Some (ECall a (map (fun _ => ECall ":" []) ddims ++ skipn n ds))
          | Some shape => Some (ECall a (map2 seq_dim (firstn n shape) (firstn n ds) ++ skipn n ds))
          end
          end
      end
  | _, _ => None
  end.

Definition seq_call (sh : shapes) (params : list (string * pkind)) (args : list expr) : list expr :=
  let pa := combine params args in
  if existsb (fun q => match seq_arg sh (snd (fst q)) (snd q) with Some _ => true | None => false end) pa
  then map (fun q => match seq_arg sh (snd (fst q)) (snd q) with Some e => e | None => snd q end) pa
  else args.

Definition unit_shapes (u : unit) (extra : shapes) : shapes :=
  flat_map (fun p => match snd p with PArr ds => [(fst p, Some ds)] | _ => [] end) (u_params u)
  ++ map (fun l => (fst l, Some (snd l))) (u_locals u) ++ extra.

Definition seqassoc_unit (t : table) (extra : shapes) (u : unit) : unit :=
  with_body u (tcalls (fun g a => match find_unit t g with
                                   | Some c => seq_call (unit_shapes u extra) (u_params c) a
                                   | None => a end) (u_body u)).

(* ------------------------------------------------------------------------------------------------ *)
(** ** B3. ArgumentArrayShapeAnalysis + ExplicitArgumentArrayShapeTransformation *)

(** the [shape] attribute of array dummies, by (routine, dummy); default: the declared dimensions *)
Definition shtab := list ((string * string) * list dim).
Fixpoint sh_get (s : shtab) (u a : string) : option (list dim) :=
  match s with
  | [] => None
  | ((u', a'), d) :: r => if String.eqb u' u && String.eqb a' a then Some d else sh_get r u a
  end.
Fixpoint sh_set (s : shtab) (u a : string) (d : list dim) : shtab :=
  match s with
  | [] => [((u, a), d)]
  | ((u', a'), d') :: r => if String.eqb u' u && String.eqb a' a then ((u', a'), d) :: r else ((u', a'), d') :: sh_set r u a d
  end.

Definition decl_dims (u : unit) (a : string) : option (list dim) :=
  match assoc_s (u_params u) a with
  | Some (PArr ds) => Some ds
  | Some _ => None
  | None => assoc_s (u_locals u) a
  end.
Definition cur_shape (s : shtab) (u : unit) (a : string) : option (list dim) :=
  match sh_get s (u_name u) a with Some d => Some d | None => decl_dims u a end.

Definition all_shape (ds : list dim) : bool := forallb is_shape ds.
Definition is_full_range (e : expr) : bool := match e with ECall f [] => String.eqb f ":" | _ => false end.

(** new shape of an assumed-shape dummy from one actual; [None]: no entry in [vmap] *)
Definition shape_from_actual (s : shtab) (caller : unit) (rank : nat) (val : expr) : option (list dim) :=
  match val with
  | EVar a =>
      match cur_shape s caller a with
      | Some vs => if Nat.eqb (List.length vs) rank then Some vs else Some []
      | None => None
      end
  | ECall a ds =>
      if reserved a then None else
      match cur_shape s caller a with
      | Some vs =>
          if Nat.eqb (List.length vs) rank then Some vs
          else Some (flat_map (fun q => if is_full_range (snd q) then [fst q] else []) (combine vs ds))
      | None => None
      end
  | _ => None
  end.

Definition analyse_call (s : shtab) (caller callee : unit) (args : list expr) : shtab :=
  fold_left (fun acc q =>
    match snd (fst q) with
    | PArr _ =>
        match cur_shape acc callee (fst (fst q)) with
        | Some ash =>
            match ash with
            | [] => acc
            | _ => if all_shape ash then
                     match shape_from_actual acc caller (List.length ash) (snd q) with
                     | Some d => sh_set acc (u_name callee) (fst (fst q)) d
                     | None => acc
                     end
                   else acc
            end
        | None => acc
        end
    | _ => acc
    end) (combine (u_params callee) args) s.

Definition analyse_unit (t : table) (s : shtab) (name : string) : shtab :=
  match find_unit t name with
  | None => s
  | Some u => fold_left (fun acc c => match find_unit t (fst c) with
                                      | Some g => analyse_call acc u g (snd c)
                                      | None => acc end) (calls (u_body u)) s
  end.

Definition assumed (ds : list dim) : bool :=
  all_shape ds || match rev ds with DSize _ :: _ => true | _ => false end.

(** variables in the dimension expressions of a shape (FindVariables; a set: the harness and the model sort) *)
Definition dim_names (d : dim) : list string :=
  match d with DExpl lo hi => names_e lo ++ names_e hi | DSize lo => names_e lo | DShape => [] end.

Fixpoint str_ltb (a b : string) : bool :=
  match a, b with
  | EmptyString, EmptyString => false
  | EmptyString, _ => true
  | _, EmptyString => false
  | String c a', String d b' =>
      let x := N_of_ascii c in let y := N_of_ascii d in
      if N.ltb x y then true else if N.ltb y x then false else str_ltb a' b'
  end.
Fixpoint insert_s (x : string) (l : list string) : list string :=
  match l with
  | [] => [x]
  | y :: r => if String.eqb x y then l else if str_ltb x y then x :: l else y :: insert_s x r
  end.
Definition sort_s (l : list string) : list string := fold_right insert_s [] l.
Definition mem_s (l : list string) (x : string) : bool := existsb (String.eqb x) l.

(** step 1 on one routine: declared dimensions := shape, where the shape is known and the declaration is assumed *)
Definition explicit_decls (s : shtab) (u : unit) : unit :=
  with_params u (map (fun p => match snd p with
                               | PArr ds => match sh_get s (u_name u) (fst p) with
                                            | Some sh => if negb (assumed sh) && assumed ds then (fst p, PArr sh) else p
                                            | None => p
                                            end
                               | _ => p end) (u_params u)).

(** the dimension variables of all array dummies of a (processed) callee *)
Definition callee_dim_vars (g : unit) : list string :=
  sort_s (flat_map (fun p => match snd p with PArr ds => flat_map dim_names ds | _ => [] end) (u_params g)).

(** step 2 for one call statement: new dummies of the callee, and the keyword actuals appended to the call
    (here positionally: the dummies are appended in the same (sorted) order) *)
Definition explicit_callee (g : unit) : unit :=
  let dv := callee_dim_vars g in
  let have := map fst (u_params g) in
  with_params g (u_params g ++ map (fun x => (x, PScal)) (filter (fun x => negb (mem_s have x)) dv)).

Definition explicit_call_args (g : unit) (args : list expr) : list expr :=
  (* g: the callee AFTER [explicit_callee] *)
  let dv := callee_dim_vars g in
  if Nat.ltb (List.length args) (List.length (u_params g)) then
    args ++ map EVar (filter (fun x => mem_s dv x) (skipn (List.length args) (map fst (u_params g))))
  else args.

Definition explicit_unit (s : shtab) (t : table) (name : string) : table :=
  match find_unit t name with
  | None => t
  | Some u0 =>
      let u := explicit_decls s u0 in
      let t1 := set_unit t u in
      (* callees first get their new dummies (once per call statement; idempotent), then the calls are rewritten *)
      let t2 := fold_left (fun tt c => match find_unit tt (fst c) with
                                       | Some g => set_unit tt (explicit_callee g)
                                       | None => tt end) (calls (u_body u)) t1 in
      match find_unit t2 name with
      | None => t2
      | Some u1 =>
          set_unit t2 (with_body u1 (tcalls (fun g a => match find_unit t2 g with
                                                       | Some c => explicit_call_args c a
                                                       | None => a end) (u_body u1)))
      end
  end.

Definition shape_tree (order : list string) (t : table) : table :=
  let s := fold_left (analyse_unit t) order [] in
  fold_left (explicit_unit s) (rev order) t.

(* ------------------------------------------------------------------------------------------------ *)
(** ** B4. DerivedTypeArgumentsTransformation *)

Inductive comp := CScal | CArr (rank : nat) | CRec (ty : string).
Definition typedefs := list (string * list (string * comp)).

(** kind of the component reached by a path ["in%s"] from a type *)
Fixpoint comp_at (fuel : nat) (td : typedefs) (ty : string) (path : string) : option comp :=
  match fuel with
  | O => None
  | S f =>
      match assoc_s td ty with
      | None => None
      | Some comps =>
          match split_pct path with
          | None => assoc_s comps path
          | Some (c, rest) => match assoc_s comps c with Some (CRec ty') => comp_at f td ty' rest | _ => None end
          end
      end
  end.

Fixpoint replace_pct (z : string) : string :=
  match z with
  | EmptyString => EmptyString
  | String c r => String (if Ascii.eqb c "%"%char then "_"%char else c) (replace_pct r)
  end.

Definition root_of (z : string) : string := match split_pct z with Some (r, _) => r | None => z end.
Definition rest_of (z : string) : string := match split_pct z with Some (_, r) => r | None => EmptyString end.
Definition has_pct (z : string) : bool := match split_pct z with Some _ => true | None => false end.

(** trafo_data of a processed kernel: original argument names and, per expanded dummy, the sorted member paths
    (relative to the dummy) *)
Record dtdata := { dd_args : list string; dd_exp : list (string * list string) }.

Definition expand_actuals (dd : dtdata) (args : list expr) : list expr :=
  flat_map (fun q => match assoc_s (dd_exp dd) (fst q), snd q with
                     | Some paths, EVar t => map (fun p => EVar (join_pct t p)) paths
                     | _, a => [a]
                     end) (combine (dd_args dd) args)
  ++ skipn (List.length (dd_args dd)) args.

Definition is_candidate (all : bool) (td : typedefs) (k : pkind) : bool :=
  match k with
  | PRec ty => all || match assoc_s td ty with
                      | Some comps => existsb (fun c => match snd c with CRec _ => true | _ => false end) comps
                      | None => false end
  | _ => false
  end.

(** the name before the last '%' ("" if there is none) *)
Fixpoint parent_of (z : string) : string :=
  match z with
  | EmptyString => EmptyString
  | String c r =>
      if has_pct (String c r)
      then (if Ascii.eqb c "%"%char && negb (has_pct r) then EmptyString else String c (parent_of r))
      else EmptyString
  end.

Definition dt_kernel (all : bool) (td : typedefs) (u : unit) : unit * dtdata :=
  (* member uses; a use that is the parent of another use is dropped ([nested_parents]) *)
  let used0 := sort_s (filter has_pct (names (u_body u))) in
  let used := filter (fun z => negb (existsb (fun w => String.eqb (parent_of w) z) used0)) used0 in
  let cands := filter (fun p => is_candidate all td (snd p)) (u_params u) in
  let exp := flat_map (fun p =>
               let mine := filter (fun z => String.eqb (root_of z) (fst p)) used in
               match mine with [] => [] | _ => [(fst p, map rest_of mine)] end) cands in
  let newp := flat_map (fun p =>
               match assoc_s exp (fst p), snd p with
               | Some paths, PRec ty =>
                   map (fun path => (replace_pct (join_pct (fst p) path),
                                     match comp_at 8 td ty path with
                                     | Some (CArr k) => PArr (repeat DShape k)
                                     | Some (CRec ty') => PRec ty'
                                     | _ => PScal end)) paths
               | _, _ => [p]
               end) (u_params u) in
  let m : rmap := flat_map (fun e => map (fun path => (join_pct (fst e) path, replace_pct (join_pct (fst e) path))) (snd e)) exp in
  ({| u_name := u_name u; u_params := newp; u_locals := u_locals u; u_body := ren (rn m) (u_body u) |},
   {| dd_args := map fst (u_params u); dd_exp := exp |}).

Definition dt_unit (all : bool) (td : typedefs) (driver : string) (st : table * list (string * dtdata)) (name : string)
  : table * list (string * dtdata) :=
  let (t, data) := st in
  match find_unit t name with
  | None => st
  | Some u =>
      let u1 := with_body u (tcalls (fun g a => match assoc_s data g with Some dd => expand_actuals dd a | None => a end) (u_body u)) in
      if String.eqb name driver then (set_unit t u1, data)
      else let (u2, dd) := dt_kernel all td u1 in (set_unit t u2, data ++ [(name, dd)])
  end.

Definition dt_tree (all : bool) (td : typedefs) (driver : string) (order : list string) (t : table) : table :=
  fst (fold_left (dt_unit all td driver) order (t, [])).

(* ------------------------------------------------------------------------------------------------ *)
(** ** B5. TypeboundProcedureCallTransformation *)

(** how the passed-object dummy of a binding is declared *)
Inductive passk := PassFirst | NoPass | PassAt (pos : nat).
Record binding := { b_type : string; b_name : string; b_impl : string; b_pass : passk }.

Fixpoint find_binding (bs : list binding) (ty b : string) : option binding :=
  match bs with
  | [] => None
  | x :: r => if String.eqb (b_type x) ty && String.eqb (b_name x) b then Some x else find_binding r ty b
  end.

(** what the code does: the object always becomes the FIRST actual *)
Definition tb_call (vt : list (string * string)) (bs : list binding) (g : string) (args : list expr) : string * list expr :=
  match split_pct g with
  | Some (obj, b) =>
      match assoc_s vt obj with
      | Some ty => match find_binding bs ty b with
                   | Some x => (b_impl x, EVar obj :: args)
                   | None => (g, args) end
      | None => (g, args)
      end
  | None => (g, args)
  end.

(** what the Fortran standard says the call means *)
Fixpoint insert_at {A} (n : nat) (x : A) (l : list A) : list A :=
  match n, l with
  | O, _ => x :: l
  | S k, y :: r => y :: insert_at k x r
  | S _, [] => [x]
  end.
Definition tb_meaning (vt : list (string * string)) (bs : list binding) (g : string) (args : list expr) : string * list expr :=
  match split_pct g with
  | Some (obj, b) =>
      match assoc_s vt obj with
      | Some ty => match find_binding bs ty b with
                   | Some x => (b_impl x, match b_pass x with
                                          | PassFirst => EVar obj :: args
                                          | NoPass => args
                                          | PassAt n => insert_at n (EVar obj) args end)
                   | None => (g, args) end
      | None => (g, args)
      end
  | None => (g, args)
  end.

Fixpoint tb_stmt (f : string -> list expr -> string * list expr) (st : stmt) : stmt :=
  match st with
  | SDo v lo hi stp b => SDo v lo hi stp (map (tb_stmt f) b)
  | SWhile c b => SWhile c (map (tb_stmt f) b)
  | SIf c t e => SIf c (map (tb_stmt f) t) (map (tb_stmt f) e)
  | SCall g a => let (g', a') := f g a in SCall g' a'
  | other => other
  end.
Definition tb_unit (vt : list (string * string)) (bs : list binding) (ss : list stmt) : list stmt :=
  map (tb_stmt (tb_call vt bs)) ss.
Definition tb_resolved (vt : list (string * string)) (bs : list binding) (ss : list stmt) : list stmt :=
  map (tb_stmt (tb_meaning vt bs)) ss.

(* ================================================================================================ *)
(** * C. Comparators for the correspondence run *)

Definition dim_eqb (a b : dim) : bool :=
  match a, b with
  | DExpl l h, DExpl l' h' => expr_eqb l l' && expr_eqb h h'
  | DShape, DShape => true
  | DSize l, DSize l' => expr_eqb l l'
  | _, _ => false
  end.
Fixpoint list_eqb {A} (f : A -> A -> bool) (a b : list A) : bool :=
  match a, b with [], [] => true | x :: r, y :: q => f x y && list_eqb f r q | _, _ => false end.
Definition pkind_eqb (a b : pkind) : bool :=
  match a, b with
  | PScal, PScal => true
  | PArr d, PArr d' => list_eqb dim_eqb d d'
  | PRec t, PRec t' => String.eqb t t'
  | _, _ => false
  end.
Definition param_eqb (a b : string * pkind) : bool := String.eqb (fst a) (fst b) && pkind_eqb (snd a) (snd b).

(** expected output of one routine: name, dummies, body *)
Definition uout := (string * list (string * pkind) * list stmt)%type.
Definition unit_out (u : unit) : uout := (u_name u, u_params u, u_body u).
Definition uout_eqb (a b : uout) : bool :=
  String.eqb (fst (fst a)) (fst (fst b)) && list_eqb param_eqb (snd (fst a)) (snd (fst b)) && stmts_eqb (snd a) (snd b).
Definition chk_table (t : table) (expected : list uout) : bool := list_eqb uout_eqb (map unit_out t) expected.

Definition chk_dedup (recurse : bool) (driver : string) (order : list string) (t : table) (expected : list uout) : bool :=
  chk_table (dedup_tree recurse driver order t) expected.
Definition chk_seq (t : table) (extra : list (string * shapes)) (expected : list uout) : bool :=
  chk_table (map (fun u => seqassoc_unit t (match assoc_s extra (u_name u) with Some e => e | None => [] end) u) t) expected.
Definition chk_shape (order : list string) (t : table) (expected : list uout) : bool :=
  chk_table (shape_tree order t) expected.
Definition chk_dt (all : bool) (td : typedefs) (driver : string) (order : list string) (t : table) (expected : list uout) : bool :=
  chk_table (dt_tree all td driver order t) expected.
Definition chk_tb (vt : list (string * string)) (bs : list binding) (body expected : list stmt) : bool :=
  stmts_eqb (tb_unit vt bs body) expected.

(** run a tree with the by-reference interpreter: the first unit is the driver, its dummies are the cells of depth 0 *)
Definition chk_run (t : table) (fuel : nat) (arrays : list (string * bounds))
           (scal0 : list (string * Z)) (cells0 : list (string * list Z * Z))
           (oscal : list string) (ocells : list (string * list Z)) (expected : option (list Z)) : bool :=
  match t with
  | [] => false
  | drv :: _ => olist_z_eqb (rrun (to_rprocs t) fuel arrays (u_body drv) scal0 cells0 oscal ocells) expected
  end.

(* ================================================================================================ *)
(** * D. The coupled form of the caller/callee rewrites, on which the theorems are stated

    [dedup_tree] and [dt_tree] work through the tree routine by routine, like the code.  Their net effect on a tree
    inside the class is a COUPLED rewrite described by a plan: per routine a renaming of its body, a new dummy
    list, and a rewriting of the actual argument lists of the calls to it.  The theorems are about [apply_plan] /
    [apply_dtplan]; that the stepwise model arrives exactly there (and that the plan is inside the class) is
    checked, by evaluation, on every generated tree ([chk_dedup_plan], [chk_dt_plan]). *)

Fixpoint sitesb_s (P : string -> list expr -> bool) (st : stmt) : bool :=
  let fix go (l : list stmt) : bool := match l with [] => true | x :: r => sitesb_s P x && go r end in
  match st with
  | SDo _ _ _ _ b => go b
  | SWhile _ b => go b
  | SIf _ t e => go t && go e
  | SCall g a => P g a
  | _ => true
  end.
Fixpoint sitesb (P : string -> list expr -> bool) (ss : list stmt) : bool :=
  match ss with [] => true | x :: r => sitesb_s P x && sitesb P r end.

Fixpoint nodup_s (l : list string) : bool :=
  match l with [] => true | x :: r => negb (mem_s r x) && nodup_s r end.

Definition plan := list (string * rmap).
Definition plan_of (pl : plan) (g : string) : rmap := match assoc_s pl g with Some m => m | None => [] end.

Definition drop_args (m : rmap) (params : list (string * pkind)) (args : list expr) : list expr :=
  map snd (filter (fun q => negb (in_dom m (fst (fst q)))) (combine params args)).

Definition plan_tc (pl : plan) (t : table) (g : string) (args : list expr) : list expr :=
  match find_unit t g with Some u => drop_args (plan_of pl g) (u_params u) args | None => args end.

Definition apply_plan (pl : plan) (t : table) : table :=
  map (fun u => let m := plan_of pl (u_name u) in
         {| u_name := u_name u;
            u_params := filter (fun p => negb (in_dom m (fst p))) (u_params u);
            u_locals := u_locals u;
            u_body := ren (rn m) (tcalls (plan_tc pl t) (u_body u)) |}) t.

Definition kind_dim_names (k : pkind) : list string :=
  match k with PArr ds => flat_map dim_names ds | _ => [] end.
Definition unit_dim_names (u : unit) : list string :=
  flat_map (fun p => kind_dim_names (snd p)) (u_params u) ++ flat_map (fun l => flat_map dim_names (snd l)) (u_locals u).

(** the merged dummies of one routine: same kind as the dummy they are merged into (not derived types), nothing
    reserved, no chains, and no declaration refers to a dummy that disappears *)
Definition rmap_okb (u : unit) (m : rmap) : bool :=
  forallb (fun kv =>
     negb (reserved (fst kv)) && negb (reserved (snd kv)) && negb (in_dom m (snd kv)) &&
     match assoc_s (u_params u) (fst kv), assoc_s (u_params u) (snd kv) with
     | Some ky, Some kx => pkind_eqb ky kx && match ky with PRec _ => false | _ => true end
     | _, _ => false
     end) m
  && nodup_s (map fst m)
  && forallb (fun z => negb (in_dom m z)) (unit_dim_names u).

(** a call site inside a routine whose body is renamed by [mc]: right number of actuals, and the actuals of a
    merged dummy and of the dummy it is merged into are the same VARIABLE (after the caller's own renaming) *)
Definition site_okb (pl : plan) (t : table) (mc : rmap) (g : string) (args : list expr) : bool :=
  match find_unit t g with
  | None => true
  | Some u =>
      Nat.eqb (List.length args) (List.length (u_params u)) &&
      forallb (fun kv =>
         match lookup_pa (fst kv) (combine (u_params u) args), lookup_pa (snd kv) (combine (u_params u) args) with
         | Some (_, EVar b), Some (_, EVar c) => String.eqb (rn mc b) (rn mc c)
         | _, _ => false
         end) (plan_of pl g)
  end.

Definition unit_okb (pl : plan) (t : table) (u : unit) : bool :=
  no_rec (to_rproc u) && nodup_s (map fst (u_params u)) && rmap_okb u (plan_of pl (u_name u))
  && sitesb (site_okb pl t (plan_of pl (u_name u))) (u_body u).

Definition plan_okb (pl : plan) (t : table) : bool := forallb (unit_okb pl t) t.

(** the stepwise model, returning also the merges it performed *)
Definition modify_callee_p (st : table * plan) (g : string) (am : list dgroup) : table * plan :=
  let m := am_rmap am in
  (modify_callee (fst st) g am, match m with [] => snd st | _ => snd st ++ [(g, m)] end).

Definition dedup_unit_p (st : table * plan) (name : string) : table * plan :=
  let t := fst st in
  match find_unit t name with
  | None => st
  | Some u =>
      let cs := filter (fun c => mem_unit t (fst c)) (calls (u_body u)) in
      let maps := fold_left (fun acc c =>
                    match find_unit t (fst c) with
                    | Some g => dset acc (fst c) (arg_map (map fst (u_params g)) (snd c) [])
                    | None => acc
                    end) cs [] in
      let t1 := set_unit t (with_body u (tcalls (fun g a => if mem_unit t g then dedup_exprs [] a else a) (u_body u))) in
      fold_left (fun acc gm => modify_callee_p acc (fst gm) (snd gm)) maps (t1, snd st)
  end.

Definition dedup_tree_p (recurse : bool) (driver : string) (order : list string) (t : table) : table * plan :=
  fold_left (fun st n => if recurse || String.eqb n driver then dedup_unit_p st n else st) order (t, []).

Definition table_eqb (a b : table) : bool := list_eqb uout_eqb (map unit_out a) (map unit_out b).

(** the stepwise model ends in the coupled form of its own plan, and the plan is in the class *)
Definition chk_dedup_plan (recurse : bool) (driver : string) (order : list string) (t : table) : bool :=
  let st := dedup_tree_p recurse driver order t in
  table_eqb (fst st) (dedup_tree recurse driver order t) &&
  table_eqb (apply_plan (snd st) t) (fst st) && plan_okb (snd st) t.

(* ------------------------------------------------------------------------------------------------ *)
(** ** coupled form of the derived-type expansion *)

Definition dtplan := list (string * list (string * list string)).      (* kernel -> expanded dummy -> member paths *)
Definition dtplan_of (pl : dtplan) (g : string) : list (string * list string) :=
  match assoc_s pl g with Some e => e | None => [] end.

Definition dt_rmap (exp : list (string * list string)) : rmap :=
  flat_map (fun e => map (fun path => (join_pct (fst e) path, replace_pct (join_pct (fst e) path))) (snd e)) exp.

Definition dt_new_params (td : typedefs) (exp : list (string * list string)) (params : list (string * pkind)) : list (string * pkind) :=
  flat_map (fun p =>
     match assoc_s exp (fst p), snd p with
     | Some paths, PRec ty =>
         map (fun path => (replace_pct (join_pct (fst p) path),
                           match comp_at 8 td ty path with
                           | Some (CArr k) => PArr (repeat DShape k)
                           | Some (CRec ty') => PRec ty'
                           | _ => PScal end)) paths
     | _, _ => [p]
     end) params.

Definition dt_tc (pl : dtplan) (t : table) (g : string) (args : list expr) : list expr :=
  match assoc_s pl g, find_unit t g with
  | Some exp, Some u => expand_actuals {| dd_args := map fst (u_params u); dd_exp := exp |} args
  | _, _ => args
  end.

Definition apply_dtplan (td : typedefs) (pl : dtplan) (t : table) : table :=
  map (fun u => let exp := dtplan_of pl (u_name u) in
         {| u_name := u_name u;
            u_params := dt_new_params td exp (u_params u);
            u_locals := u_locals u;
            u_body := ren (rn (dt_rmap exp)) (tcalls (dt_tc pl t) (u_body u)) |}) t.

Definition all_names (u : unit) (tbody : list stmt) : list string :=
  map fst (u_params u) ++ map fst (u_locals u) ++ unit_dim_names u ++ names (u_body u) ++ names tbody.

(** lower bound 1 and a non-negative upper bound, written as literals *)
Definition dim_lb1 (d : dim) : bool :=
  match d with DExpl (EInt lo) (EInt hi) => (lo =? 1) && (0 <=? hi) | _ => false end.

(** one routine of the tree, with its expansion [exp]:
    - the expanded dummies are derived-type dummies, the member paths lead to scalar or array components, the new
      names are new (no clash with any name of the routine), pairwise distinct and not reserved;
    - dummy names are distinct and contain no '%'; local arrays that are components (names with '%') have
      literal bounds starting at 1; no declaration refers to a component *)
Definition dt_unit_okb (td : typedefs) (pl : dtplan) (t : table) (u : unit) : bool :=
  let exp := dtplan_of pl (u_name u) in
  let tbody := tcalls (dt_tc pl t) (u_body u) in
  let m := dt_rmap exp in
  nodup_s (map fst (u_params u)) && forallb (fun p => negb (has_pct (fst p)) && negb (reserved (fst p))) (u_params u)
  && nodup_s (map fst exp)
  && forallb (fun e =>
       match assoc_s (u_params u) (fst e) with
       | Some (PRec ty) =>
           nodup_s (snd e) &&
           forallb (fun path => match comp_at 8 td ty path with Some CScal | Some (CArr _) => true | _ => false end) (snd e)
       | _ => false
       end) exp
  && nodup_s (map snd m)
  && forallb (fun kv => negb (reserved (snd kv)) && negb (has_pct (snd kv)) && negb (mem_s (all_names u tbody) (snd kv))) m
  && forallb (fun l => if has_pct (fst l) then forallb dim_lb1 (snd l) else true) (u_locals u)
  && forallb (fun z => negb (has_pct z)) (unit_dim_names u).

(** a routine that is CALLED: every member use [x%path] of one of its derived-type dummies (after the calls in
    its body have been rewritten) is expanded *)
Definition dt_callee_okb (pl : dtplan) (t : table) (u : unit) : bool :=
  let m := dt_rmap (dtplan_of pl (u_name u)) in
  forallb (fun z => if has_pct z
                    then match assoc_s (u_params u) (root_of z) with
                         | Some (PRec _) => in_dom m z
                         | Some _ => false
                         | None => true
                         end
                    else true) (names (u_body u) ++ names (tcalls (dt_tc pl t) (u_body u))).

(** a call site: right number of actuals; the actual of every expanded dummy of the callee is a variable *)
Definition dt_site_okb (pl : dtplan) (t : table) (g : string) (args : list expr) : bool :=
  match find_unit t g with
  | None => true
  | Some u =>
      Nat.eqb (List.length args) (List.length (u_params u)) && dt_callee_okb pl t u &&
      forallb (fun e => match lookup_pa (fst e) (combine (u_params u) args) with
                        | Some (_, EVar _) => true | _ => false end) (dtplan_of pl g)
  end.

Definition dtplan_okb (td : typedefs) (pl : dtplan) (t : table) : bool :=
  forallb (fun u => dt_unit_okb td pl t u && sitesb (dt_site_okb pl t) (u_body u)) t.

(** component arrays seen through a frame start at 1 (and are not of negative size) *)
Definition bnd_lb1 (b : bounds) : bool := forallb (fun p => (fst p =? 1) && (0 <=? snd p)) b.

Definition dt_unit_p (all : bool) (td : typedefs) (driver : string) (st : table * list (string * dtdata)) (name : string) :=
  dt_unit all td driver st name.
Definition dt_plan_of_data (data : list (string * dtdata)) : dtplan := map (fun x => (fst x, dd_exp (snd x))) data.

Definition chk_dt_plan (all : bool) (td : typedefs) (driver : string) (order : list string) (t : table) : bool :=
  let st := fold_left (dt_unit all td driver) order (t, []) in
  let pl := dt_plan_of_data (snd st) in
  table_eqb (apply_dtplan td pl t) (fst st) && dtplan_okb td pl t.

(* ------------------------------------------------------------------------------------------------ *)
(** ** one call whose callee gets explicit shapes (ExplicitArgumentArrayShapeTransformation, callee side + call) *)

Definition es_param (sh : list (string * list dim)) (p : string * pkind) : string * pkind :=
  match snd p, assoc_s sh (fst p) with
  | PArr ds, Some ds' => if all_shape ds then (fst p, PArr ds') else p
  | _, _ => p
  end.
Definition es_proc (sh : list (string * list dim)) (news : list string) (p : rproc) : rproc :=
  {| rp_params := map (es_param sh) (rp_params p) ++ map (fun x => (x, PScal)) news;
     rp_arrays := rp_arrays p; rp_body := rp_body p |}.
Fixpoint set_rproc (ps : rprocs) (k : string) (p : rproc) : rprocs :=
  match ps with
  | [] => []
  | (g, q) :: r => if String.eqb g k then (g, p) :: r else (g, q) :: set_rproc r k p
  end.

Definition sref_depth (r : sref) : nat := match r with RCell l => fst l | RElem l _ => fst l end.

Definition rproc_names (p : rproc) : list string :=
  map fst (rp_params p) ++ flat_map (fun q => kind_dim_names (snd q)) (rp_params p)
  ++ map fst (rp_arrays p) ++ flat_map (fun l => flat_map (fun b => names_e (fst b) ++ names_e (snd b)) (snd l)) (rp_arrays p)
  ++ names (rp_body p).

Definition is_expl (d : dim) : bool := match d with DExpl _ _ => true | _ => false end.

(** integer expressions over scalars only (no array reads, no function references) *)
Fixpoint pure_e (e : expr) : bool :=
  match e with
  | EInt _ | EPy _ | EVar _ => true
  | ESum _ cs | EProd _ cs => forallb pure_e cs
  | EQuot _ a b | EPow _ a b => pure_e a && pure_e b
  | _ => false
  end.
Definition pure_dim (d : dim) : bool := match d with DExpl lo hi => pure_e lo && pure_e hi | _ => false end.

(** static side conditions: the new size dummies are new names, the new dimensions are explicit and only refer to
    the new size dummies *)
Definition es_static (sh : list (string * list dim)) (news : list string) (p : rproc) : bool :=
  nodup_s news && forallb (fun x => negb (reserved x) && negb (mem_s (rproc_names p) x)) news
  && forallb (fun e => forallb pure_dim (snd e) && forallb (fun z => mem_s news z) (flat_map dim_names (snd e))) sh.

(** dynamic condition at the call: evaluated in the CALLER, the new dimensions of every assumed-shape dummy are
    exactly [1 : extent] of the actual (the size variables still hold the extents, lower bounds are 1) *)
Fixpoint es_match (fr : frame) (s : rstore) (sh : list (string * list dim)) (pa : pargs) : Prop :=
  match pa with
  | [] => True
  | ((x, PArr ds), e) :: r =>
      (match assoc_s sh x, actual_seq fr s e with
       | Some ds', Some sq => all_shape ds = true ->
                              expl_bnd (renv fr s) (sq_len sq) ds' 1 = Some (map (fun n => (1, n)) (sq_ext sq))
       | _, _ => True
       end) /\ es_match fr s sh r
  | _ :: r => es_match fr s sh r
  end.

(* ------------------------------------------------------------------------------------------------ *)
(** ** one call with sequence-associated actuals (do_resolve_sequence_association) *)

(** the frame's bounds of the actual array are the declared ones the rewrite uses for the upper bounds *)
Fixpoint shape_current (rho : env) (shape : list dim) (b : bounds) : Prop :=
  match shape, b with
  | [], [] => True
  | DExpl _ hi :: r, p :: b' => evalZ rho hi = Some (snd p) /\ shape_current rho r b'
  | _, _ => False
  end.

(** class of one rewritten actual [a(idx)] for a dummy of rank [n]: the array has rank 1, or rank 2 with a rank-1
    dummy, or rank 2 with a rank-2 dummy and the element is the FIRST of its column *)
Definition seq_arg_class (fr : frame) (s : rstore) (sh : shapes) (k : pkind) (arg : expr) : Prop :=
  match seq_arg sh k arg with
  | None => True
  | Some _ =>
      match k, arg with
      | PArr ddims, ECall a ds =>
          forallb is_expl ddims = true /\
          exists shape i, assoc_s sh a = Some (Some shape) /\
            shape_current (renv fr s) shape (ar_bnd (fa fr a)) /\
            omap_list (evalZ (renv fr s)) ds = Some i /\ in_bnd (ar_bnd (fa fr a)) i = true /\
            match ar_bnd (fa fr a), i with
            | [_], [_] => True
            | [p1; _], [i1; _] => List.length ddims = 1%nat \/ (List.length ddims = 2%nat /\ i1 = fst p1)
            | _, _ => False
            end
      | _, _ => False
      end
  end.
Fixpoint seq_class (fr : frame) (s : rstore) (sh : shapes) (pa : pargs) : Prop :=
  match pa with
  | [] => True
  | ((_, k), e) :: r => seq_arg_class fr s sh k e /\ seq_class fr s sh r
  end.

(* ------------------------------------------------------------------------------------------------ *)
(** ** kind-consistent use of the expanded component names (extra class condition of the derived-type theorem)

    A component name [x%path] has a scalar and an array aspect in a frame; the theorem needs the code to use a scalar
    component only as a scalar and an array component only as an array (what a compiler enforces).  [sc]/[ar] classify
    the names that may be used as scalars / as arrays. *)
Section WK.
  Variables sc ar : string -> bool.

  Fixpoint wk_e (e : expr) : bool :=
    match e with
    | EVar x => sc x
    | ESum _ cs | EProd _ cs | EAnd cs | EOr cs => forallb wk_e cs
    | EQuot _ a b | EPow _ a b | ECmp _ a b => wk_e a && wk_e b
    | ENot a => wk_e a
    | ECall f args => ar f && forallb wk_e args
    | _ => true
    end.

  (** an actual in the position of an array dummy *)
  Definition wk_aact (e : expr) : bool :=
    match e with EVar a => ar a | ECall a ds => ar a && forallb wk_e ds | _ => true end.

  Fixpoint wk_s (st : stmt) : bool :=
    match st with
    | SAssign x e => sc x && wk_e e
    | SStore a i e => ar a && forallb wk_e i && wk_e e
    | SDo v lo hi stp b =>
        sc v && wk_e lo && wk_e hi && (match stp with Some e => wk_e e | None => true end) && forallb wk_s b
    | SWhile c b => wk_e c && forallb wk_s b
    | SIf c t e => wk_e c && forallb wk_s t && forallb wk_s e
    | SCall _ _ => true
    | SSkip _ => true
    end.
End WK.

Definition wk_arg (sc ar : string -> bool) (q : (string * pkind) * expr) : bool :=
  match snd (fst q) with PScal => wk_e sc ar (snd q) | PArr _ => wk_aact sc ar (snd q) | PRec _ => true end.
Definition dt_kind (td : typedefs) (params : list (string * pkind)) (m : rmap) (z : string) : option comp :=
  if in_dom m z then
    match assoc_s params (root_of z) with Some (PRec ty) => comp_at 8 td ty (rest_of z) | _ => None end
  else None.
Definition dt_sc td params m z : bool := match dt_kind td params m z with Some (CArr _) => false | _ => true end.
Definition dt_ar td params m z : bool := match dt_kind td params m z with Some CScal => false | _ => true end.
Definition dt_site_kb (td : typedefs) (pl : dtplan) (t : table) (sc ar : string -> bool) (g : string) (args : list expr) : bool :=
  match find_unit t g with
  | None => true
  | Some u =>
      forallb (wk_arg sc ar) (combine (u_params u) args) &&
      forallb (fun e => match lookup_pa (fst e) (combine (u_params u) args) with
                        | Some (PRec ty, EVar a) =>
                            forallb (fun path => match comp_at 8 td ty path with
                                                 | Some (CArr _) => ar (join_pct a path)
                                                 | _ => sc (join_pct a path) end) (snd e)
                        | _ => true
                        end) (dtplan_of pl g)
  end.
Definition dt_unit_kb (td : typedefs) (pl : dtplan) (t : table) (u : unit) : bool :=
  let exp := dtplan_of pl (u_name u) in
  let m := dt_rmap exp in
  let sc := dt_sc td (u_params u) m in
  let ar := dt_ar td (u_params u) m in
  forallb (fun e => negb (mem_s (map fst (u_locals u)) (fst e))) exp
  && forallb (wk_s sc ar) (u_body u)
  && sitesb (dt_site_kb td pl t sc ar) (u_body u).
Definition dt_kinds_okb (td : typedefs) (pl : dtplan) (t : table) : bool := forallb (dt_unit_kb td pl t) t.

(** the stepwise model of the derived-type expansion ends in the coupled form of its own plan, and plan and tree are
    inside the class of the theorem *)
Definition chk_dt_class (all : bool) (td : typedefs) (driver : string) (order : list string) (t : table) : bool :=
  let st := fold_left (dt_unit all td driver) order (t, []) in
  let pl := dt_plan_of_data (snd st) in
  table_eqb (apply_dtplan td pl t) (fst st) && dtplan_okb td pl t && dt_kinds_okb td pl t.
