(** C13 — symbols are classified by their declared type and share it by scope.  Definitions only.
    Models loki/expression/symbols.py: Variable.__new__, TypedSymbol.__init__/type getter+setter/clone/rescope
    for symbols without derived-type parents, on top of a chain of case-insensitive symbol tables. *)
From Coq Require Import ZArith List Bool String.
From LV Require Import Base.Strings.
Import ListNotations.
Open Scope Z_scope.

Inductive dkind := DProc | DDerived (n : string) | DBasic | DDeferred.
Record ty := { dk : dkind; has_shape : bool; tag : Z }.

(** truthiness of [type.dtype]: BasicType.DEFERRED is falsy (enum value 0), every other dtype is truthy *)
Definition dtype_truthy (t : ty) : bool := match dk t with DDeferred => false | _ => true end.

Inductive cls := KProc | KDerivedType | KArray | KScalar | KDeferred.

(** Variable.__new__ after the type has been determined ([t] = explicit type, else scope look-up, else None) *)
Definition classify (name : string) (t : option ty) (dims : bool) : cls :=
  match t with
  | Some t =>
      match dk t with
      | DProc => KProc
      | DDerived n => if String.eqb (lower name) (lower n) then KDerivedType
                      else if dims || has_shape t then KArray else KScalar
      | DBasic => if dims || has_shape t then KArray else KScalar
      | DDeferred => if dims || has_shape t then KArray else KDeferred
      end
  | None => if dims then KArray else KDeferred
  end.

(** the documented tier list (docstring of Variable) plus the derived-type-name tier it omits *)
Definition tier_doc (name : string) (t : option ty) (dims : bool) : cls :=
  let is_proc := match t with Some t => match dk t with DProc => true | _ => false end | None => false end in
  let is_tname := match t with Some t => match dk t with DDerived n => String.eqb (lower name) (lower n) | _ => false end | None => false end in
  let shaped := dims || match t with Some t => has_shape t | None => false end in
  let known := match t with Some t => dtype_truthy t | None => false end in
  if is_proc then KProc else if is_tname then KDerivedType else if shaped then KArray else if known then KScalar else KDeferred.

(** * scopes: scope k's parent is scope k+1 (the last one has no parent) *)
Definition key (n : string) : string := cut_paren (lower n).
Definition table := list (string * ty).

Fixpoint tget (t : table) (k : string) : option ty :=
  match t with [] => None | (k', v) :: r => if String.eqb k' k then Some v else tget r k end.
Fixpoint tset (t : table) (k : string) (v : ty) : table :=
  match t with
  | [] => [(k, v)]
  | (k', v') :: r => if String.eqb k' k then (k, v) :: r else (k', v') :: tset r k v
  end.

Definition scopes := list table.

(** SymbolTable.lookup(name, recursive=True) starting at scope [i] *)
Fixpoint resolve_from (ss : scopes) (k : string) : option ty :=
  match ss with
  | [] => None
  | t :: r => match tget t k with Some v => Some v | None => resolve_from r k end
  end.
Definition resolve (ss : scopes) (i : nat) (n : string) : option ty := resolve_from (skipn i ss) (key n).

Fixpoint update_nth {A} (l : list A) (i : nat) (f : A -> A) : list A :=
  match l, i with
  | [], _ => []
  | x :: r, O => f x :: r
  | x :: r, S j => x :: update_nth r j f
  end.
Definition set_entry (ss : scopes) (i : nat) (n : string) (v : ty) : scopes :=
  update_nth ss i (fun t => tset t (key n) v).

(** * symbols *)
Record symb := { s_name : string; s_scope : option nat; s_local : option ty; s_cls : cls }.
Record state := { st_scopes : scopes; st_syms : list symb }.


Definition deferred_ty : ty := {| dk := DDeferred; has_shape := false; tag := 0 |}.

(** the [type] getter *)
Definition read_type (ss : scopes) (y : symb) : option ty :=
  match s_scope y with
  | None => s_local y
  | Some i => resolve ss i (s_name y)
  end.

(** Variable(name=, scope=, type=, dimensions=): returns the new scopes and the symbol.
    __new__: type from scope when not given; __init__: [self.type = type or self.type] — the setter always
    writes into the symbol's own scope table (its identity test against a freshly cloned look-up never holds),
    and stores DEFERRED when nothing is known. *)
Definition create (ss : scopes) (n : string) (sc : option nat) (t : option ty) (dims : bool) : scopes * symb :=
  match sc with
  | None =>
      (* DeferredTypeSymbol.__init__ substitutes SymbolAttributes(DEFERRED) for a missing type *)
      let c := classify n t dims in
      let loc := match t, c with None, KDeferred => Some deferred_ty | _, _ => t end in
      (ss, {| s_name := n; s_scope := None; s_local := loc; s_cls := c |})
  | Some i =>
      let t' := match t with Some _ => t | None => resolve ss i n end in
      let ss' := set_entry ss i n (match t' with Some v => v | None => deferred_ty end) in
      (ss', {| s_name := n; s_scope := Some i; s_local := None; s_cls := classify n t' dims |})
  end.

(** clone with keyword overrides: [csc] = None: scope not overridden; Some None: scope=None; Some (Some i): scope=i *)
Definition clone (ss : scopes) (y : symb) (cname : option string) (csc : option (option nat)) (ct : option ty) (dims : bool)
  : scopes * symb :=
  let n := match cname with Some m => m | None => s_name y end in
  let sc_given := match csc with Some _ => true | None => false end in
  let sc := match csc with Some s => s | None => s_scope y end in
  let t := match ct with
           | Some _ => ct
           | None =>
               (* 'scope' in kwargs (given, or inherited from an attached original) and name in scope.symbol_attrs (non-recursive) *)
               match sc with
               | Some i =>
                   if sc_given || match s_scope y with Some _ => true | None => false end then
                     match tget (nth i ss []) (key n) with
                     | Some v => Some v
                     | None => read_type ss y
                     end
                   else read_type ss y
               | None => read_type ss y
               end
           end in
  create ss n sc t dims.

(** rescope(scope) *)
Definition is_array (y : symb) : bool := match s_cls y with KArray => true | _ => false end.

(** [Array.rescope] passes [dimensions=self.dimensions] (an empty tuple, not None, when there are no subscripts),
    so rescoping an Array always yields an Array; the caller passes [dims := is_array y]. *)
Definition rescope (ss : scopes) (y : symb) (i : nat) (dims : bool) : scopes * symb :=
  match read_type ss y with
  | Some _ =>
      match resolve ss i (s_name y) with
      | Some e => if dtype_truthy e then clone ss y None (Some (Some i)) (Some e) dims
                  else (* _lookup_type returns the deferred entry, which is truthy as an object *)
                       clone ss y None (Some (Some i)) (Some e) dims
      | None => clone ss y None (Some (Some i)) None dims
      end
  | None => clone ss y None (Some (Some i)) None dims
  end.

(** the [type] setter on an existing symbol *)
Definition set_type (st : state) (j : nat) (t : option ty) : state :=
  match nth_error (st_syms st) j with
  | None => st
  | Some y =>
      match s_scope y with
      | None => {| st_scopes := st_scopes st;
                   st_syms := update_nth (st_syms st) j (fun y => {| s_name := s_name y; s_scope := None; s_local := t; s_cls := s_cls y |}) |}
      | Some i => {| st_scopes := set_entry (st_scopes st) i (s_name y) (match t with Some v => v | None => deferred_ty end);
                     st_syms := st_syms st |}
      end
  end.

Inductive op :=
| OCreate (n : string) (sc : option nat) (t : option ty) (dims : bool)
| OSetTable (i : nat) (n : string) (t : ty)                     (* scope.symbol_attrs[n] = t *)
| OSetType (j : nat) (t : option ty)                            (* sym.type = t *)
| OClone (j : nat) (cname : option string) (csc : option (option nat)) (ct : option ty)
| ORescope (j : nat) (i : nat).

Definition step (st : state) (o : op) : state :=
  match o with
  | OCreate n sc t dims =>
      let '(ss, y) := create (st_scopes st) n sc t dims in {| st_scopes := ss; st_syms := st_syms st ++ [y] |}
  | OSetTable i n t => {| st_scopes := set_entry (st_scopes st) i n t; st_syms := st_syms st |}
  | OSetType j t => set_type st j t
  | OClone j cname csc ct =>
      match nth_error (st_syms st) j with
      | Some y => let '(ss, z) := clone (st_scopes st) y cname csc ct false in {| st_scopes := ss; st_syms := st_syms st ++ [z] |}
      | None => st
      end
  | ORescope j i =>
      match nth_error (st_syms st) j with
      | Some y => let '(ss, z) := rescope (st_scopes st) y i (is_array y) in {| st_scopes := ss; st_syms := st_syms st ++ [z] |}
      | None => st
      end
  end.

Definition init (nscopes : nat) : state := {| st_scopes := repeat [] nscopes; st_syms := [] |}.
Definition run (nscopes : nat) (ops : list op) : state := fold_left step ops (init nscopes).

(** * observation and comparators for the correspondence *)
Definition dkind_eqb (a b : dkind) : bool :=
  match a, b with
  | DProc, DProc | DBasic, DBasic | DDeferred, DDeferred => true
  | DDerived x, DDerived y => String.eqb x y
  | _, _ => false
  end.
Definition ty_eqb (a b : ty) : bool := dkind_eqb (dk a) (dk b) && Bool.eqb (has_shape a) (has_shape b) && (tag a =? tag b).
Definition oty_eqb (a b : option ty) : bool :=
  match a, b with Some x, Some y => ty_eqb x y | None, None => true | _, _ => false end.
Definition cls_eqb (a b : cls) : bool :=
  match a, b with KProc, KProc | KDerivedType, KDerivedType | KArray, KArray | KScalar, KScalar | KDeferred, KDeferred => true | _, _ => false end.

Definition observe_syms (st : state) : list (cls * option ty) :=
  map (fun y => (s_cls y, read_type (st_scopes st) y)) (st_syms st).

Fixpoint obs_eqb (a b : list (cls * option ty)) : bool :=
  match a, b with
  | [], [] => true
  | (c, t) :: r, (c', t') :: q => cls_eqb c c' && oty_eqb t t' && obs_eqb r q
  | _, _ => false
  end.

(** tables compared as key-sorted association lists supplied by the harness: every expected entry is present with
    the same value and the sizes agree *)
Fixpoint table_sub (exp : list (string * ty)) (t : table) : bool :=
  match exp with [] => true | (k, v) :: r => oty_eqb (tget t k) (Some v) && table_sub r t end.
Definition table_eqb (exp : list (string * ty)) (t : table) : bool :=
  Nat.eqb (List.length exp) (List.length t) && table_sub exp t.
Fixpoint tables_eqb (exp : list (list (string * ty))) (ss : scopes) : bool :=
  match exp, ss with
  | [], [] => true
  | e :: r, t :: q => table_eqb e t && tables_eqb r q
  | _, _ => false
  end.

Definition chk_history (nscopes : nat) (ops : list op) (syms : list (cls * option ty)) (tabs : list (list (string * ty))) : bool :=
  let st := run nscopes ops in obs_eqb syms (observe_syms st) && tables_eqb tabs (st_scopes st).

Definition chk_classify (name : string) (t : option ty) (dims : bool) (c : cls) : bool := cls_eqb (classify name t dims) c.
