(** C32 — constant propagation, dead-code removal, unused variable / argument removal.
    Definitions only (the executable model of what Loki DOES on the modelled class, plus the
    boolean comparators used by the correspondence run).

    Anchors: loki/transformations/constant_propagation.py (ConstantPropagationMapper,
    ConstantPropagationTransformer, do_constant_propagation), loki/transformations/remove_code.py
    (RemoveDeadCodeTransformer, find_unused_dummy_args_and_vars, do_remove_unused_call_args),
    loki/expression/symbolic.py (SimplifyMapper as reached from the two mappers).

    Every function returns [None] when the input leaves the modelled class: either the model does
    not describe what Loki produces there (expression shapes outside the binary class, intrinsics), or Loki
    raises (literal division by zero), or -- for [strict = true] only -- Loki's output is known NOT to
    preserve behaviour (the branches marked "class" in [cp1]; notes/C32.md lists them with witnesses). *)
From Coq Require Import ZArith List Bool String.
From LV Require Import Base.Expr Base.MiniF.
Import ListNotations.
Open Scope Z_scope.

(** * 1. The constants map (scalars only: [update_constants_map] is never reached for arrays) *)

Definition cmap := list (string * Z).

Fixpoint lookup (m : cmap) (x : string) : option Z :=
  match m with
  | [] => None
  | (k, v) :: r => if String.eqb k x then Some v else lookup r x
  end.

Fixpoint remove (m : cmap) (x : string) : cmap :=
  match m with
  | [] => []
  | (k, v) :: r => if String.eqb k x then remove r x else (k, v) :: remove r x
  end.

Definition setc (m : cmap) (x : string) (v : Z) : cmap := (x, v) :: remove m x.

Definition has_val (m : cmap) (x : string) (v : Z) : bool :=
  match lookup m x with Some w => w =? v | None => false end.

(** [visit_Conditional]: keep the entries that both branch maps share with the same value *)
Definition merge (m1 m2 : cmap) : cmap :=
  filter (fun kv => has_val m1 (fst kv) (snd kv) && has_val m2 (fst kv) (snd kv)) m1.

Definition unknown (m : cmap) (x : string) : bool :=
  match lookup m x with None => true | Some _ => false end.

(** none of the names has an entry *)
Definition disjoint (ws : list string) (m : cmap) : bool := forallb (unknown m) ws.

(** every entry of [m1] is an entry of [m] *)
Definition submap (m1 m : cmap) : bool := forallb (fun kv => has_val m (fst kv) (snd kv)) m1.

(** * 2. Expression rewriting: ConstantPropagationMapper / SimplifyMapper on the modelled class

    Results of the rewriting are classified:
    - [SV v]  a literal value; negative values are printed as [Product((-1, IntLiteral))]
    - [SA x]  an opaque atom (scalar without entry, array element: [map_array] does not descend into subscripts)
    - [SN x]  a negated atom [Product((-1, x))]
    - [SC e]  any other result; it cannot be combined further inside the class *)
Inductive sval := SV (v : Z) | SA (x : expr) | SN (x : expr) | SC (e : expr).

Definition lit (v : Z) : expr := if v <? 0 then EProd false [EPy (-1); EInt (- v)] else EInt v.
Definition negx (x : expr) : expr := EProd false [EPy (-1); x].

Definition expr_of (s : sval) : expr :=
  match s with SV v => lit v | SA x => x | SN x => negx x | SC e => e end.

Definition is_intr (f : string) : bool :=
  String.eqb f "mod" || String.eqb f "modulo" || String.eqb f "abs" || String.eqb f "min" || String.eqb f "max".

(** expressions whose evaluation in a store cannot fail (no quotient, power, intrinsic) *)
Fixpoint total_e (e : expr) : bool :=
  match e with
  | EInt _ | EPy _ | EVar _ => true
  | ESum _ cs | EProd _ cs => forallb total_e cs
  | ECall f args => negb (is_intr f) && forallb total_e args
  | _ => false
  end.

Fixpoint total_c (c : expr) : bool :=
  match c with
  | ELog _ => true
  | ECmp _ l r => total_e l && total_e r
  | EAnd cs | EOr cs => forallb total_c cs
  | ENot x => total_c x
  | _ => false
  end.

(** flatten + sum_literals + collect_coefficients on two operands *)
Definition sum2 (a b : sval) : option sval :=
  match a, b with
  | SV x, SV y => Some (SV (x + y))
  | SV x, SA y | SA y, SV x => Some (if x =? 0 then SA y else SC (ESum false [lit x; y]))
  | SV x, SN y | SN y, SV x => Some (if x =? 0 then SN y else SC (ESum false [lit x; negx y]))
  | SA x, SA y =>
      if expr_eqb x y then Some (SC (EProd false [EInt 2; x])) else Some (SC (ESum false [x; y]))
  | SA x, SN y =>
      if expr_eqb x y then (if total_e x then Some (SV 0) else None) else Some (SC (ESum false [x; negx y]))
  | SN x, SA y =>
      if expr_eqb x y then (if total_e x then Some (SV 0) else None) else Some (SC (ESum false [negx x; y]))
  | _, _ => None
  end.

(** mul_literals: a literal coefficient in front of an atom *)
Definition coef (c : Z) (y : expr) : option sval :=
  if c =? 0 then (if total_e y then Some (SV 0) else None)
  else if c =? 1 then Some (SA y)
  else if c =? -1 then Some (SN y)
  else if 0 <? c then Some (SC (EProd false [EInt c; y]))
  else Some (SC (EProd false [EPy (-1); EProd false [EInt (- c); y]])).

Definition prod2 (a b : sval) : option sval :=
  match a, b with
  | SV x, SV y => Some (SV (x * y))
  | SV c, SA y | SA y, SV c => coef c y
  | SA x, SA y => Some (SC (EProd false [x; y]))
  | _, _ => None
  end.

(** [force = true]: ConstantPropagationMapper.map_quotient ([IntLiteral(float(n)/float(d))], i.e. truncation,
    ZeroDivisionError for a literal zero divisor); [force = false]: SimplifyMapper/div_literals (gcd reduction only).
    [0 / x] is rewritten to [0] by Loki; it is excluded from the class because the rewritten program is defined
    where the original divides by zero. *)
Definition quot2 (force : bool) (a b : sval) : option sval :=
  match a, b with
  | SV x, SV y =>
      if y =? 0 then None
      else if force then Some (SV (Z.quot x y))
      else if (0 <=? x) && (0 <? y) then
        (if Z.rem x y =? 0 then Some (SV (Z.quot x y))
         else if Z.gcd x y =? 1 then Some (SC (EQuot false (EInt x) (EInt y))) else None)
      else None
  | SV c, SA y =>
      if c =? 0 then None
      else if 0 <? c then Some (SC (EQuot false (EInt c) y))
      else Some (SC (negx (EQuot false (EInt (- c)) y)))
  | SA x, SV c =>
      if c =? 1 then Some (SA x)
      else if c =? -1 then Some (SN x)
      else if 0 <=? c then Some (SC (EQuot false x (EInt c)))
      else Some (SC (negx (EQuot false x (EInt (- c)))))
  | SA x, SA y => Some (SC (EQuot false x y))
  | _, _ => None
  end.

Fixpoint simp (force : bool) (m : cmap) (e : expr) : option sval :=
  match e with
  | EInt v => Some (SV v)
  | EPy v => Some (SV v)
  | EVar x => match lookup m x with Some v => Some (SV v) | None => Some (SA (EVar x)) end
  | ECall f args => if is_intr f then None else Some (SA (ECall f args))
  | ESum _ [a; b] =>
      match simp force m a, simp force m b with Some x, Some y => sum2 x y | _, _ => None end
  | EProd _ [a; b] =>
      match simp force m a, simp force m b with Some x, Some y => prod2 x y | _, _ => None end
  | EQuot _ a b =>
      match simp force m a, simp force m b with Some x, Some y => quot2 force x y | _, _ => None end
  | _ => None
  end.

Definition simp_e (force : bool) (m : cmap) (e : expr) : option expr :=
  match simp force m e with Some s => Some (expr_of s) | None => None end.

Fixpoint simp_list (force : bool) (m : cmap) (l : list expr) : option (list expr) :=
  match l with
  | [] => Some []
  | e :: r =>
      match simp_e force m e, simp_list force m r with
      | Some e', Some r' => Some (e' :: r')
      | _, _ => None
      end
  end.

Definition is_true (c : expr) : bool := match c with ELog true => true | _ => false end.
Definition is_false (c : expr) : bool := match c with ELog false => true | _ => false end.

(** map_comparison / map_logical_and / map_logical_or / map_logical_not (LogicEvaluation).  A short-circuit drops
    operands; inside the class the dropped operands must be total. *)
Fixpoint simp_cond (force : bool) (m : cmap) (c : expr) : option expr :=
  let fix go (l : list expr) : option (list expr) :=
    match l with
    | [] => Some []
    | x :: r => match simp_cond force m x, go r with Some x', Some r' => Some (x' :: r') | _, _ => None end
    end in
  match c with
  | ELog b => Some (ELog b)
  | ECmp op l r =>
      match simp force m l, simp force m r with
      | Some (SV a), Some (SV b) => Some (ELog (cmp_z op a b))
      | Some x, Some y => Some (ECmp op (expr_of x) (expr_of y))
      | _, _ => None
      end
  | EAnd cs =>
      match go cs with
      | Some cs' =>
          if existsb is_false cs' then (if forallb total_c cs' then Some (ELog false) else None)
          else match filter (fun x => negb (is_true x)) cs' with
               | [] => Some (ELog true)
               | rest => Some (EAnd rest)
               end
      | None => None
      end
  | EOr cs =>
      match go cs with
      | Some cs' =>
          if existsb is_true cs' then (if forallb total_c cs' then Some (ELog true) else None)
          else match filter (fun x => negb (is_false x)) cs' with
               | [] => Some (ELog false)
               | rest => Some (EOr rest)
               end
      | None => None
      end
  | ENot x =>
      match simp_cond force m x with
      | Some (ELog b) => Some (ELog (negb b))
      | Some x' => Some (ENot x')
      | None => None
      end
  | _ => None
  end.

(** * 3. Syntactic helpers on statements *)

(** FindVariables: scalars and whole array references, including what occurs inside subscripts *)
Fixpoint syms (e : expr) : list expr :=
  match e with
  | EVar _ => [e]
  | ECall f args => (if is_intr f then [] else [e]) ++ flat_map syms args
  | ESum _ cs | EProd _ cs | EAnd cs | EOr cs => flat_map syms cs
  | EQuot _ a b | EPow _ a b | ECmp _ a b => syms a ++ syms b
  | ENot a => syms a
  | _ => []
  end.

Definition mem_expr (s : expr) (l : list expr) : bool := existsb (expr_eqb s) l.
Definition intersects (e : expr) (l : list expr) : bool := existsb (fun s => mem_expr s l) (syms e).

Fixpoint evars (args : list expr) : list string :=
  match args with
  | [] => []
  | EVar x :: r => x :: evars r
  | _ :: r => evars r
  end.

(** scalars a statement may write: assignment targets, DO variables, variable actuals of calls *)
Fixpoint writes (st : stmt) : list string :=
  match st with
  | SAssign x _ => [x]
  | SStore _ _ _ => []
  | SDo v _ _ _ b => v :: flat_map writes b
  | SWhile _ b => flat_map writes b
  | SIf _ t e => flat_map writes t ++ flat_map writes e
  | SCall _ args => evars args
  | SSkip _ => []
  end.
Definition writes_l (l : list stmt) : list string := flat_map writes l.

(** FindNodes(Assignment) in pre-order *)
Fixpoint assigns (st : stmt) : list stmt :=
  match st with
  | SAssign _ _ | SStore _ _ _ => [st]
  | SDo _ _ _ _ b | SWhile _ b => flat_map assigns b
  | SIf _ t e => flat_map assigns t ++ flat_map assigns e
  | _ => []
  end.

(** FindNodes(Loop): DO variables of nested loops *)
Fixpoint loopvars (st : stmt) : list string :=
  match st with
  | SDo v _ _ _ b => v :: flat_map loopvars b
  | SWhile _ b => flat_map loopvars b
  | SIf _ t e => flat_map loopvars t ++ flat_map loopvars e
  | _ => []
  end.

Definition lhs_sym (st : stmt) : expr :=
  match st with
  | SAssign x _ => EVar x
  | SStore a idx _ => ECall a idx
  | _ => ELog false
  end.

Definition mem_str (x : string) (l : list string) : bool := existsb (String.eqb x) l.

(** the last write to [x] in a loop body is the top-level assignment [x = c] *)
Fixpoint lwc (l : list stmt) (x : string) (c : Z) : bool :=
  match l with
  | [] => false
  | st :: r =>
      ((match st with SAssign y (EInt c') => String.eqb y x && (c' =? c) | _ => false end)
         && negb (mem_str x (writes_l r)))
      || lwc r x c
  end.

(** * 4. ConstantPropagationTransformer *)

(** second half of [visit_Loop] for constant bounds: every assignment of the rewritten body whose right-hand side
    mentions none of [lhs_vars] is visited again on the map of the enclosing scope *)
Fixpoint post_const (lv : list expr) (m : cmap) (asg : list stmt) : option cmap :=
  match asg with
  | [] => Some m
  | SAssign x e :: r =>
      if intersects e lv then post_const lv m r
      else if existsb (fun s => match s with EVar y => negb (unknown m y) | _ => false end) (syms e) then None
      else match e with
           | EInt v => post_const lv (setc m x v) r
           | _ => post_const lv (remove m x) r
           end
  | _ :: r => post_const lv m r
  end.

(** non-constant bounds: every assigned scalar is invalidated ([invalidate_constants_map] is a no-op for arrays) *)
Fixpoint post_nonconst (m : cmap) (asg : list stmt) : cmap :=
  match asg with
  | [] => m
  | SAssign x _ :: r => post_nonconst (remove m x) r
  | _ :: r => post_nonconst m r
  end.

Definition upd_assign (m : cmap) (x : string) (s : sval) : cmap :=
  match s with
  | SV v => if 0 <=? v then setc m x v else remove m x
  | _ => remove m x
  end.

(** [is_constant] on the rewritten loop bounds: literals (possibly minus-prefixed), step absent or literal *)
Definition bounds_const (slo shi : sval) (sst : option sval) : option (Z * Z * Z) :=
  match slo, shi with
  | SV a, SV b =>
      match sst with
      | None => Some (a, b, 1)
      | Some (SV d) => Some (a, b, d)
      | Some _ => None
      end
  | _, _ => None
  end.

Definition simp_step (m : cmap) (stp : option expr) : option (option sval) :=
  match stp with
  | None => Some None
  | Some e => match simp true m e with Some s => Some (Some s) | None => None end
  end.

Definition expr_of_step (sst : option sval) : option expr :=
  match sst with Some s => Some (expr_of s) | None => None end.

(** side conditions under which the map computed for a constant-bounds loop is right: an entry is either an
    untouched entry of the incoming map, or the loop runs at least once and the entry is the last top-level
    assignment [x = c] of the body *)
Definition loop_entries_ok (m mf : cmap) (a b d : Z) (body' : list stmt) : bool :=
  forallb (fun kv => has_val m (fst kv) (snd kv)
                     || (negb (d =? 0) && (1 <=? trip_count a b d) && lwc body' (fst kv) (snd kv))) mf.

(** one statement; [rec] handles nested bodies; [wl] is the [within_loop] flag.
    [strict = true] adds the class conditions (the [None] answers marked "class") under which the output is proved
    behaviour-preserving; [strict = false] is the plain description of what Loki computes. *)
Definition cp1 (strict : bool) (rec : bool -> cmap -> list stmt -> option (list stmt * cmap))
           (wl : bool) (m : cmap) (st : stmt) : option (stmt * cmap) :=
  match st with
  | SAssign x e =>
      if wl && mem_expr (EVar x) (syms e) then
        (* "increment" inside a loop: returned unchanged, map untouched.  class: no entry for x survives *)
        (if strict && negb (unknown m x) then None else Some (st, m))
      else
        match simp true m e with
        | Some s => Some (SAssign x (expr_of s), upd_assign m x s)
        | None => None
        end
  | SStore a idx e =>
      if wl && mem_expr (ECall a idx) (syms e) then Some (st, m)
      else
        match simp_list true m idx, simp_e true m e with
        | Some idx', Some e' => Some (SStore a idx' e', m)
        | _, _ => None
        end
  | SIf c t e =>
      match simp_cond true m c, rec wl m t, rec wl m e with
      | Some c', Some (t', m1), Some (e', m2) => Some (SIf c' t' e', merge m1 m2)
      | _, _, _ => None
      end
  | SDo v lo hi stp body =>
      match simp true m lo, simp true m hi, simp_step m stp, rec true (remove m v) body with
      | Some slo, Some shi, Some sst, Some (body', _) =>
          (* class: nothing the body may write has an entry (the body is rewritten with the incoming map) *)
          if strict && negb (disjoint (writes_l body) m) then None
          else
            let asg := flat_map assigns body' in
            let lv := EVar v :: map EVar (flat_map loopvars body) ++ map lhs_sym asg in
            let st' := SDo v (expr_of slo) (expr_of shi) (expr_of_step sst) body' in
            match bounds_const slo shi sst with
            | Some (a, b, d) =>
                match post_const lv m asg with
                | Some mp =>
                    let mf := remove mp v in
                    (* class: see [loop_entries_ok] *)
                    if strict && negb (loop_entries_ok m mf a b d body') then None else Some (st', mf)
                | None => None
                end
            | None => Some (st', remove (post_nonconst m asg) v)
            end
      | _, _, _, _ => None
      end
  | SWhile c body =>
      (* no visit_WhileLoop: the body is visited like straight-line code on the enclosing map, the condition is kept.
         class: the body writes nothing that has an entry, and leaves no new entry *)
      match rec wl m body with
      | Some (body', m1) =>
          if strict && negb (disjoint (writes_l body) m && submap m1 m) then None else Some (SWhile c body', m1)
      | None => None
      end
  | SCall f args =>
      (* no visit_CallStatement: arguments are neither rewritten nor invalidated.  class: no variable actual has an entry *)
      if strict && negb (disjoint (evars args) m) then None else Some (st, m)
  | SSkip _ => Some (st, m)
  end.

Fixpoint cp (strict : bool) (n : nat) (wl : bool) (m : cmap) (l : list stmt) {struct n} : option (list stmt * cmap) :=
  match n with
  | O => None
  | S k =>
      match l with
      | [] => Some ([], m)
      | st :: r =>
          match cp1 strict (cp strict k) wl m st with
          | Some (st', m1) =>
              match cp strict k wl m1 r with
              | Some (r', m2) => Some (st' :: r', m2)
              | None => None
              end
          | None => None
          end
      end
  end.

(** do_constant_propagation(routine, unroll_loops=False) on a routine without declaration initialisers *)
Definition constprop (n : nat) (p : list stmt) : option (list stmt) :=
  match cp true n false [] p with Some (q, _) => Some q | None => None end.

(** the same without the class conditions *)
Definition constprop_raw (n : nat) (p : list stmt) : option (list stmt) :=
  match cp false n false [] p with Some (q, _) => Some q | None => None end.

(** * 5. RemoveDeadCodeTransformer *)

(** the frontend sets [has_elseif] exactly when the else branch is a single conditional (ELSE IF) *)
Definition is_elseif (e : list stmt) : bool := match e with [SIf _ _ _] => true | _ => false end.
(** the rebuild raises (pydantic ValidationError) when the pruned ELSE IF branch is empty ([has_elseif = ()]) or
    starts with a conditional followed by more nodes ([has_elseif = True] needs a single conditional) *)
Definition is_nil (e : list stmt) : bool :=
  match e with
  | [] => true
  | SIf _ _ _ :: _ :: _ => true
  | _ => false
  end.

Fixpoint dce1 (u : bool) (st : stmt) : option (list stmt) :=
  let fix go (l : list stmt) : option (list stmt) :=
    match l with
    | [] => Some []
    | s :: r => match dce1 u s, go r with Some a, Some b => Some (a ++ b) | _, _ => None end
    end in
  match st with
  | SIf c t e =>
      match (if u then simp_cond false [] c else Some c), go t, go e with
      | Some c', Some t', Some e' =>
          match c' with
          | ELog true => Some t'
          | ELog false => Some e'
          | _ =>
              (* [has_elseif = o.has_elseif and else_body and isinstance(else_body[0], Conditional)]: see [is_nil] *)
              if is_elseif e && is_nil e' then None else Some [SIf c' t' e']
          end
      | _, _, _ => None
      end
  | SDo v lo hi stp b => match go b with Some b' => Some [SDo v lo hi stp b'] | None => None end
  | SWhile c b => match go b with Some b' => Some [SWhile c b'] | None => None end
  | _ => Some [st]
  end.

Fixpoint dce (u : bool) (l : list stmt) : option (list stmt) :=
  match l with
  | [] => Some []
  | s :: r => match dce1 u s, dce u r with Some a, Some b => Some (a ++ b) | _, _ => None end
  end.

(** * 6. Unused variables, unused dummy arguments and the matching call arguments *)

Fixpoint occurs_e (x : string) (e : expr) : bool :=
  match e with
  | EVar y => String.eqb y x
  | ECall f args => String.eqb f x || existsb (occurs_e x) args
  | ESum _ cs | EProd _ cs | EAnd cs | EOr cs => existsb (occurs_e x) cs
  | EQuot _ a b | EPow _ a b | ECmp _ a b => occurs_e x a || occurs_e x b
  | ENot a => occurs_e x a
  | _ => false
  end.

Fixpoint occurs (x : string) (st : stmt) : bool :=
  match st with
  | SAssign y e => String.eqb y x || occurs_e x e
  | SStore a idx e => String.eqb a x || existsb (occurs_e x) idx || occurs_e x e
  | SDo v lo hi stp b =>
      String.eqb v x || occurs_e x lo || occurs_e x hi
      || (match stp with Some e => occurs_e x e | None => false end) || existsb (occurs x) b
  | SWhile c b => occurs_e x c || existsb (occurs x) b
  | SIf c t e => occurs_e x c || existsb (occurs x) t || existsb (occurs x) e
  | SCall _ args => existsb (occurs_e x) args
  | SSkip _ => false
  end.
Definition occurs_l (x : string) (l : list stmt) : bool := existsb (occurs x) l.

(** what the dataflow analysis reports as used or defined: like [occurs], except that a DO loop does not report
    its own induction variable ("make sure the induction variable is not considered outside the loop") *)
Fixpoint occ_df (x : string) (st : stmt) : bool :=
  match st with
  | SDo v lo hi stp b =>
      negb (String.eqb v x)
      && (occurs_e x lo || occurs_e x hi
          || (match stp with Some e => occurs_e x e | None => false end) || existsb (occ_df x) b)
  | SWhile c b => occurs_e x c || existsb (occ_df x) b
  | SIf c t e => occurs_e x c || existsb (occ_df x) t || existsb (occ_df x) e
  | _ => occurs x st
  end.
Definition occ_df_l (x : string) (l : list stmt) : bool := existsb (occ_df x) l.

(** declarations: name, shape expressions ([] for a scalar); get_used_or_defined_symbols also counts what occurs
    in the shape of a used array and of every local array *)
Definition decl := (string * list expr)%type.

Definition used (args : list string) (decls : list decl) (body : list stmt) (x : string) : bool :=
  occ_df_l x body
  || existsb (fun d => (negb (mem_str (fst d) args) || occ_df_l (fst d) body) && existsb (occurs_e x) (snd d)) decls.

(** find_unused_dummy_args_and_vars: positions of the unused dummies, names of the unused locals *)
Fixpoint unused_pos_from (k : nat) (args : list string) (u : string -> bool) : list nat :=
  match args with
  | [] => []
  | a :: r => if u a then unused_pos_from (S k) r u else k :: unused_pos_from (S k) r u
  end.

Definition unused_args (args : list string) (decls : list decl) (body : list stmt) : list nat :=
  unused_pos_from 0 args (used args decls body).

Definition unused_locals (args : list string) (decls : list decl) (body : list stmt) : list string :=
  filter (fun x => negb (mem_str x args) && negb (used args decls body x)) (map fst decls).

Fixpoint remove_pos_from {A} (k : nat) (ks : list nat) (l : list A) : list A :=
  match l with
  | [] => []
  | a :: r => if existsb (Nat.eqb k) ks then remove_pos_from (S k) ks r else a :: remove_pos_from (S k) ks r
  end.
Definition remove_pos {A} (ks : list nat) (l : list A) : list A := remove_pos_from 0 ks l.

(** do_remove_unused_call_args for the calls to [f] *)
Fixpoint rm_call_args (f : string) (ks : list nat) (st : stmt) : stmt :=
  match st with
  | SCall g args => if String.eqb g f then SCall g (remove_pos ks args) else st
  | SDo v lo hi stp b => SDo v lo hi stp (map (rm_call_args f ks) b)
  | SWhile c b => SWhile c (map (rm_call_args f ks) b)
  | SIf c t e => SIf c (map (rm_call_args f ks) t) (map (rm_call_args f ks) e)
  | _ => st
  end.

Definition rm_dummies (ks : list nat) (p : proc) : proc :=
  {| p_params := remove_pos ks (p_params p); p_body := p_body p |}.

(** * 7. Correspondence comparators (evaluated by vm_compute on every generated case) *)

Definition in_class_cp (n : nat) (p : list stmt) : bool :=
  match cp true n false [] p with Some _ => true | None => false end.

Definition in_class_raw (n : nat) (p : list stmt) : bool :=
  match cp false n false [] p with Some _ => true | None => false end.

Definition chk_cp_raw (n : nat) (p q : list stmt) : bool :=
  match constprop_raw n p with Some q' => stmts_eqb q' q | None => false end.

Definition chk_cp (n : nat) (p q : list stmt) : bool :=
  match constprop n p with Some q' => stmts_eqb q' q | None => false end.

(** two-pass variant used with unroll_loops=True: [p1] Loki's first pass, [p2] its unrolled form (Loki's
    LoopUnrollTransformer, not modelled here), [p3] the second pass, which starts from the FINAL map of pass one *)
Definition in_class_cp2 (n : nat) (p p2 : list stmt) : bool :=
  match cp true n false [] p with
  | Some (_, m1) => match cp true n false m1 p2 with Some _ => true | None => false end
  | None => false
  end.

Definition chk_cp2 (n : nat) (p p1 p2 p3 : list stmt) : bool :=
  match cp true n false [] p with
  | Some (q1, m1) =>
      stmts_eqb q1 p1 &&
      match cp true n false m1 p2 with Some (q3, _) => stmts_eqb q3 p3 | None => false end
  | None => false
  end.

(** the same, but without an opinion when the unrolled body leaves the expression class of the model (the
    rewriting of an already rewritten expression is not always inside the binary class) *)
Definition chk_cp2_weak (n : nat) (p p1 p2 p3 : list stmt) : bool :=
  match cp true n false [] p with
  | Some (q1, m1) =>
      stmts_eqb q1 p1 &&
      match cp true n false m1 p2 with Some (q3, _) => stmts_eqb q3 p3 | None => true end
  | None => false
  end.

(** the second pass raises (a literal zero divisor appears only after unrolling): pass one as usual, pass two [None] *)
Definition chk_cp2_raises (n : nat) (p p1 p2 : list stmt) : bool :=
  match cp true n false [] p with
  | Some (q1, m1) =>
      stmts_eqb q1 p1 && match cp true n false m1 p2 with Some _ => false | None => true end
  | None => false
  end.

(** witnesses of known findings: outside the class; the raw model, where it has an opinion, reproduces Loki *)
Definition chk_finding (n : nat) (p q : list stmt) : bool :=
  negb (in_class_cp n p) &&
  match constprop_raw n p with Some q' => stmts_eqb q' q | None => true end.

Definition in_class_dce (u : bool) (p : list stmt) : bool :=
  match dce u p with Some _ => true | None => false end.

Definition chk_dce (u : bool) (p q : list stmt) : bool :=
  match dce u p with Some q' => stmts_eqb q' q | None => false end.

Fixpoint list_nat_eqb (a b : list nat) : bool :=
  match a, b with
  | [], [] => true
  | x :: r, y :: q => Nat.eqb x y && list_nat_eqb r q
  | _, _ => false
  end.

Fixpoint list_str_eqb (a b : list string) : bool :=
  match a, b with
  | [], [] => true
  | x :: r, y :: q => String.eqb x y && list_str_eqb r q
  | _, _ => false
  end.

(** unused dummies / locals of a routine, and the caller body after do_remove_unused_call_args *)
Definition chk_unused (args : list string) (decls : list decl) (body : list stmt)
           (upos : list nat) (ulocals : list string) : bool :=
  list_nat_eqb (unused_args args decls body) upos && list_str_eqb (unused_locals args decls body) ulocals.

Definition chk_rm_call_args (f : string) (ks : list nat) (caller caller' : list stmt) : bool :=
  stmts_eqb (map (rm_call_args f ks) caller) caller'.

(** two programs give different observations from the same initial scalars (used to state the refutations) *)
Definition differs (ps : procs) (fuel : nat) (p p' : list stmt) (scal0 : list (string * Z)) (oscal : list string) : bool :=
  match run_observe ps fuel p scal0 [] oscal [], run_observe ps fuel p' scal0 [] oscal [] with
  | Some a, Some b => negb (list_z_eqb a b)
  | _, _ => false
  end.
