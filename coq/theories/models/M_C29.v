(** C29 — ASSOCIATE resolution and merging (loki/transformations/sanitise/associates.py).
    Definitions only: source language with ASSOCIATE, its fuelled interpreter, the models of
    ResolveAssociatesTransformer / ResolveAssociateMapper and MergeAssociatesTransformer, the
    decidable class predicates and the boolean comparators used by the correspondence. *)
From Coq Require Import ZArith List Bool String.
From LV Require Import Base.Expr Base.MiniF.
Import ListNotations.
Open Scope Z_scope.

(** * Source language: MiniF core statements + ASSOCIATE *)

(** one subscript position of an array-section selector: a fixed subscript, or a free range.
    [off] is the bound shift of the range seen from inside the block: (effective lower bound - 1),
    i.e. 0 for [a(:)] on an array declared [a(1:n)] and for [a(1:k)], 1 for [a(2:k)], -1 for [a(:)] on [a(0:n)]. *)
Inductive dim := DFix (e : expr) | DFree (off : Z).

(** selector of one association, classified syntactically the way Loki's frontend builds it:
    - [SName y]   a bare variable name (scalar or whole array),
    - [SSec a ds] an Array symbol with subscripts (an element when no position is free),
    - [SVal e]    any other expression (sum, literal, intrinsic call, ...). *)
Inductive sel := SName (y : string) | SSec (a : string) (ds : list dim) | SVal (e : expr).

Inductive astmt : Type :=
| AAssign (x : string) (e : expr)
| AStore  (a : string) (idx : list expr) (e : expr)
| ADo     (v : string) (lo hi : expr) (st : option expr) (body : list astmt)
| AIf     (c : expr) (tb eb : list astmt)
| ASkip   (label : string)
| AAssoc  (assocs : list (string * sel)) (body : list astmt).

Section astmt_ind'.
  Variable P : astmt -> Prop.
  Hypothesis HA : forall x e, P (AAssign x e).
  Hypothesis HS : forall a i e, P (AStore a i e).
  Hypothesis HD : forall v lo hi st b, Forall P b -> P (ADo v lo hi st b).
  Hypothesis HI : forall c t e, Forall P t -> Forall P e -> P (AIf c t e).
  Hypothesis HK : forall l, P (ASkip l).
  Hypothesis HX : forall a b, Forall P b -> P (AAssoc a b).
  Fixpoint astmt_ind' (s : astmt) : P s :=
    let fix go (l : list astmt) : Forall P l :=
      match l with [] => Forall_nil P | x :: r => Forall_cons x (astmt_ind' x) (go r) end in
    match s with
    | AAssign x e => HA x e
    | AStore a i e => HS a i e
    | ADo v lo hi st b => HD v lo hi st b (go b)
    | AIf c t e => HI c t e (go t) (go e)
    | ASkip l => HK l
    | AAssoc a b => HX a b (go b)
    end.
End astmt_ind'.

Fixpoint lookup {A} (l : list (string * A)) (x : string) : option A :=
  match l with
  | [] => None
  | (k, v) :: r => if String.eqb k x then Some v else lookup r x
  end.

(** * Run-time bindings of associate names *)
Inductive bdim := BFix (i : Z) | BFree (off : Z).
Inductive binding :=
| BName (y : string)                 (* alias of the variable [y] (scalar and whole array) *)
| BSec  (a : string) (ds : list bdim)(* alias of an element / section of [a]; subscripts evaluated ONCE at entry *)
| BVal  (v : Z).                     (* value of an expression selector captured at entry; not definable *)
Definition aenv := list (string * binding).

(** subscripts of the storage denoted by [name(args)] for a section binding; [None] on a rank mismatch *)
Fixpoint fillz (ds : list bdim) (args : list Z) : option (list Z) :=
  match ds with
  | [] => match args with [] => Some [] | _ => None end
  | BFix i :: r => option_map (cons i) (fillz r args)
  | BFree off :: r =>
      match args with
      | a :: ar => option_map (cons (a + off)) (fillz r ar)
      | [] => None
      end
  end.

(** a section of a section *)
Fixpoint compose (ds0 ds : list bdim) : option (list bdim) :=
  match ds0 with
  | [] => match ds with [] => Some [] | _ => None end
  | BFix i :: r => option_map (cons (BFix i)) (compose r ds)
  | BFree off0 :: r =>
      match ds with
      | BFix i :: dr => option_map (cons (BFix (i + off0))) (compose r dr)
      | BFree off :: dr => option_map (cons (BFree (off + off0))) (compose r dr)
      | [] => None
      end
  end.

Definition var_of (rho : aenv) (s : store) (x : string) : Z :=
  match lookup rho x with
  | None => sv s x
  | Some (BName y) => sv s y
  | Some (BSec a bds) => match fillz bds [] with Some i => av s a i | None => 0 end
  | Some (BVal v) => v
  end.

Definition fun_of (rho : aenv) (s : store) (f : string) (args : list Z) : option Z :=
  match lookup rho f with
  | None => Some (av s f args)
  | Some (BName y) => Some (av s y args)
  | Some (BSec a bds) => option_map (av s a) (fillz bds args)
  | Some (BVal _) => None
  end.

(** expression environment of a store seen through the bindings *)
Definition env_a (rho : aenv) (s : store) : env := {| ev_var := var_of rho s; ev_fun := fun_of rho s |}.

Definition eval_dim (rho : aenv) (s : store) (d : dim) : option bdim :=
  match d with
  | DFix e => option_map BFix (evalZ (env_a rho s) e)
  | DFree off => Some (BFree off)
  end.

(** binding established for one selector at block entry (evaluated in the enclosing environment) *)
Definition bind_of (rho : aenv) (s : store) (sl : sel) : option binding :=
  match sl with
  | SName y => Some (match lookup rho y with None => BName y | Some b => b end)
  | SSec a ds =>
      obind (omap_list (eval_dim rho s) ds) (fun bds =>
        match lookup rho a with
        | None => Some (BSec a bds)
        | Some (BName b) => Some (BSec b bds)
        | Some (BSec b bds0) => option_map (BSec b) (compose bds0 bds)
        | Some (BVal _) => None
        end)
  | SVal e => option_map BVal (evalZ (env_a rho s) e)
  end.

Fixpoint bind_all (rho : aenv) (s : store) (l : list (string * sel)) : option aenv :=
  match l with
  | [] => Some []
  | (x, sl) :: r =>
      obind (bind_of rho s sl) (fun b => obind (bind_all rho s r) (fun bs => Some ((x, b) :: bs)))
  end.

Definition write_scalar (rho : aenv) (x : string) (v : Z) (s : store) : option store :=
  match lookup rho x with
  | None => Some (set_sv x v s)
  | Some (BName y) => Some (set_sv y v s)
  | Some (BSec a bds) => option_map (fun i => set_av a i v s) (fillz bds [])
  | Some (BVal _) => None
  end.

Definition write_elem (rho : aenv) (a : string) (idx : list Z) (v : Z) (s : store) : option store :=
  match lookup rho a with
  | None => Some (set_av a idx v s)
  | Some (BName b) => Some (set_av b idx v s)
  | Some (BSec b bds) => option_map (fun i => set_av b i v s) (fillz bds idx)
  | Some (BVal _) => None
  end.

Definition dovar (rho : aenv) (v : string) : option string :=
  match lookup rho v with
  | None => Some v
  | Some (BName y) => Some y
  | _ => None
  end.

(** one statement with sub-fuel [f], parameterised by the interpreter for nested lists *)
Definition aexec1_with (run : aenv -> list astmt -> store -> option store) (rho : aenv) (st : astmt) (s : store) : option store :=
  match st with
  | AAssign x e => obind (evalZ (env_a rho s) e) (fun v => write_scalar rho x v s)
  | AStore a idx e =>
      obind (omap_list (evalZ (env_a rho s)) idx) (fun i =>
      obind (evalZ (env_a rho s) e) (fun v => write_elem rho a i v s))
  | ADo v lo hi stp body =>
      obind (dovar rho v) (fun v' =>
      obind (evalZ (env_a rho s) lo) (fun a =>
      obind (evalZ (env_a rho s) hi) (fun b =>
      obind (match stp with None => Some 1 | Some e => evalZ (env_a rho s) e end) (fun d =>
        if d =? 0 then None else
        do_loop (run rho body) v' d (Z.to_nat (trip_count a b d)) a s))))
  | AIf c tb eb => obind (evalB (env_a rho s) c) (fun b => run rho (if b then tb else eb) s)
  | ASkip _ => Some s
  | AAssoc assocs body => obind (bind_all rho s assocs) (fun beta => run (beta ++ rho) body s)
  end.

(** fuelled big-step interpreter (same fuel discipline as [MiniF.exec]) *)
Fixpoint aexec (fuel : nat) (rho : aenv) (ss : list astmt) (s : store) {struct fuel} : option store :=
  match fuel with
  | O => None
  | S f =>
    match ss with
    | [] => Some s
    | st :: rest => obind (aexec1_with (aexec f) rho st s) (fun s' => aexec f rho rest s')
    end
  end.

Definition aexec1 (f : nat) := aexec1_with (aexec f).

Definition aruns (rho : aenv) (ss : list astmt) (s s' : store) : Prop := exists f, aexec f rho ss s = Some s'.

Definition arun_observe (fuel : nat) (prog : list astmt)
           (scal0 : list (string * Z)) (cells0 : list (string * list Z * Z))
           (oscal : list string) (ocells : list (string * list Z)) : option (list Z) :=
  match aexec fuel [] prog (init_store scal0 cells0) with
  | Some s => Some (observe s oscal ocells)
  | None => None
  end.

(** * ResolveAssociateMapper: substitution of associate names by (already resolved) selectors *)

Definition is_intr (f : string) : bool :=
  String.eqb f "mod" || String.eqb f "modulo" || String.eqb f "abs" || String.eqb f "min" || String.eqb f "max".

(** [_match_range_indices]: bind the free ranges of the selector's subscripts, in sequence, to the
    subscripts found at the use site; [None] when the numbers differ (Loki then keeps the ranges).
    The bound shift [off] of a range is DROPPED, as in the code ("Bounds shifts ... not supported"). *)
Fixpoint fille (ds : list dim) (args : list expr) : option (list expr) :=
  match ds with
  | [] => match args with [] => Some [] | _ => None end
  | DFix e :: r => option_map (cons e) (fille r args)
  | DFree _ :: r =>
      match args with
      | a :: ar => option_map (cons a) (fille r ar)
      | [] => None
      end
  end.

Fixpoint filld (ds0 ds : list dim) : option (list dim) :=
  match ds0 with
  | [] => match ds with [] => Some [] | _ => None end
  | DFix e :: r => option_map (cons (DFix e)) (filld r ds)
  | DFree _ :: r =>
      match ds with
      | d :: dr => option_map (cons d) (filld r dr)
      | [] => None
      end
  end.

Definition smap := list (string * sel).

Fixpoint subst (sg : smap) (e : expr) : expr :=
  match e with
  | EVar x =>
      match lookup sg x with
      | Some (SName y) => EVar y
      | Some (SSec a ds) => match fille ds [] with Some idx => ECall a idx | None => EVar x end
      | Some (SVal e') => e'
      | None => EVar x
      end
  | ECall f args =>
      let args' := map (subst sg) args in
      if is_intr f then ECall f args' else
      match lookup sg f with
      | Some (SName y) => ECall y args'
      | Some (SSec a ds) => match fille ds args' with Some idx => ECall a idx | None => ECall f args' end
      | _ => ECall f args'
      end
  | ESum p cs => ESum p (map (subst sg) cs)
  | EProd p cs => EProd p (map (subst sg) cs)
  | EQuot p a b => EQuot p (subst sg a) (subst sg b)
  | EPow p a b => EPow p (subst sg a) (subst sg b)
  | ECmp o a b => ECmp o (subst sg a) (subst sg b)
  | EAnd cs => EAnd (map (subst sg) cs)
  | EOr cs => EOr (map (subst sg) cs)
  | ENot a => ENot (subst sg a)
  | EInt _ | EPy _ | ELog _ => e
  end.

Definition subst_dim (sg : smap) (d : dim) : dim :=
  match d with DFix e => DFix (subst sg e) | DFree off => DFree off end.

(** selector of an inner block, resolved through the enclosing blocks *)
Definition subst_sel (sg : smap) (sl : sel) : sel :=
  match sl with
  | SName y => match lookup sg y with Some v => v | None => SName y end
  | SSec a ds =>
      let ds' := map (subst_dim sg) ds in
      match lookup sg a with
      | Some (SName b) => SSec b ds'
      | Some (SSec b ds0) => match filld ds0 ds' with Some r => SSec b r | None => SSec a ds' end
      | _ => SSec a ds'
      end
  | SVal e => SVal (subst sg e)
  end.

Definition subst_assocs (sg : smap) (l : list (string * sel)) : smap :=
  map (fun p => (fst p, subst_sel sg (snd p))) l.

Definition subst_name (sg : smap) (v : string) : string :=
  match lookup sg v with Some (SName y) => y | _ => v end.

(** left-hand side [x = rhs] *)
Definition resolve_assign (sg : smap) (x : string) (rhs : expr) : stmt :=
  match lookup sg x with
  | Some (SName y) => SAssign y rhs
  | Some (SSec a ds) => match fille ds [] with Some idx => SStore a idx rhs | None => SAssign x rhs end
  | _ => SAssign x rhs
  end.

Definition resolve_store (sg : smap) (a : string) (idx : list expr) (rhs : expr) : stmt :=
  match lookup sg a with
  | Some (SName b) => SStore b idx rhs
  | Some (SSec b ds) => match fille ds idx with Some i => SStore b i rhs | None => SStore a idx rhs end
  | _ => SStore a idx rhs
  end.

(** ResolveAssociatesTransformer with start_depth = 0: every block is replaced by its body *)
Fixpoint resolve_stmt (sg : smap) (st : astmt) : list stmt :=
  match st with
  | AAssign x e => [resolve_assign sg x (subst sg e)]
  | AStore a idx e => [resolve_store sg a (map (subst sg) idx) (subst sg e)]
  | ADo v lo hi stp body =>
      [SDo (subst_name sg v) (subst sg lo) (subst sg hi) (option_map (subst sg) stp)
           (flat_map (resolve_stmt sg) body)]
  | AIf c tb eb => [SIf (subst sg c) (flat_map (resolve_stmt sg) tb) (flat_map (resolve_stmt sg) eb)]
  | ASkip l => [SSkip l]
  | AAssoc assocs body => flat_map (resolve_stmt (subst_assocs sg assocs ++ sg)) body
  end.

Definition resolve_list (sg : smap) (ss : list astmt) : list stmt := flat_map (resolve_stmt sg) ss.
Definition resolve (ss : list astmt) : list stmt := resolve_list [] ss.

(** the general transformer: blocks at nesting depth <= start_depth are kept (their selectors untouched,
    their names not substituted), deeper ones are resolved *)
Definition core_of (st : stmt) : astmt :=
  match st with
  | SAssign x e => AAssign x e
  | SStore a i e => AStore a i e
  | _ => ASkip "?"
  end.

Fixpoint resolve_sd_stmt (sd depth : nat) (sg : smap) (st : astmt) : list astmt :=
  match st with
  | AAssign x e => [core_of (resolve_assign sg x (subst sg e))]
  | AStore a idx e => [core_of (resolve_store sg a (map (subst sg) idx) (subst sg e))]
  | ADo v lo hi stp body =>
      [ADo (subst_name sg v) (subst sg lo) (subst sg hi) (option_map (subst sg) stp)
           (flat_map (resolve_sd_stmt sd depth sg) body)]
  | AIf c tb eb => [AIf (subst sg c) (flat_map (resolve_sd_stmt sd depth sg) tb) (flat_map (resolve_sd_stmt sd depth sg) eb)]
  | ASkip l => [ASkip l]
  | AAssoc assocs body =>
      if (depth <=? sd)%nat then [AAssoc assocs (flat_map (resolve_sd_stmt sd (S depth) sg) body)]
      else flat_map (resolve_sd_stmt sd (S depth) (subst_assocs sg assocs ++ sg)) body
  end.

Definition resolve_sd (sd : nat) (ss : list astmt) : list astmt := flat_map (resolve_sd_stmt sd 1 []) ss.

(** embedding of the ASSOCIATE-free fragment back into the source language (for idempotence) *)
Fixpoint embed_stmt (st : stmt) : astmt :=
  match st with
  | SAssign x e => AAssign x e
  | SStore a i e => AStore a i e
  | SDo v lo hi stp b => ADo v lo hi stp (map embed_stmt b)
  | SIf c t e => AIf c (map embed_stmt t) (map embed_stmt e)
  | SSkip l => ASkip l
  | SWhile _ _ => ASkip "while"
  | SCall _ _ => ASkip "call"
  end.
Definition embed (p : list stmt) : list astmt := map embed_stmt p.

(** * Class predicates *)

Fixpoint fv (e : expr) : list string :=
  match e with
  | EVar x => [x]
  | ECall f args => f :: flat_map fv args
  | ESum _ cs | EProd _ cs | EAnd cs | EOr cs => flat_map fv cs
  | EQuot _ a b | EPow _ a b | ECmp _ a b => fv a ++ fv b
  | ENot a => fv a
  | EInt _ | EPy _ | ELog _ => []
  end.

Fixpoint writes_stmt (st : stmt) : list string :=
  match st with
  | SAssign x _ => [x]
  | SStore a _ _ => [a]
  | SDo v _ _ _ b => v :: flat_map writes_stmt b
  | SWhile _ b => flat_map writes_stmt b
  | SIf _ t e => flat_map writes_stmt t ++ flat_map writes_stmt e
  | SCall _ _ => []
  | SSkip _ => []
  end.
Definition writes (p : list stmt) : list string := flat_map writes_stmt p.

Definition memb (x : string) (l : list string) : bool := existsb (String.eqb x) l.
Definition disjointb (l1 l2 : list string) : bool := forallb (fun x => negb (memb x l2)) l1.

(** names on which the binding of a (resolved) selector depends at run time *)
Definition dim_fv (d : dim) : list string := match d with DFix e => fv e | DFree _ => [] end.
Definition dyn_fv (sl : sel) : list string :=
  match sl with
  | SName _ => []
  | SSec _ ds => flat_map dim_fv ds
  | SVal e => fv e
  end.

Definition unshifted (d : dim) : bool := match d with DFix _ => true | DFree off => off =? 0 end.

(** a resolved selector the substitution can use: the target is not an intrinsic's name and ranges carry no bound shift *)
Definition sel_ok (sl : sel) : bool :=
  match sl with
  | SName y => negb (is_intr y)
  | SSec a ds => negb (is_intr a) && forallb unshifted ds
  | SVal _ => true
  end.

Definition is_some {A} (o : option A) : bool := match o with Some _ => true | None => false end.

(** the substitution is defined on [e] (ranks fit; no subscripted use of an expression selector) *)
Fixpoint okE (sg : smap) (e : expr) : bool :=
  match e with
  | EVar x => match lookup sg x with Some (SSec _ ds) => is_some (fille ds []) | _ => true end
  | ECall f args =>
      forallb (okE sg) args &&
      (if is_intr f then true else
       match lookup sg f with
       | Some (SSec _ ds) => is_some (fille ds (map (subst sg) args))
       | Some (SVal _) => false
       | _ => true
       end)
  | ESum _ cs | EProd _ cs | EAnd cs | EOr cs => forallb (okE sg) cs
  | EQuot _ a b | EPow _ a b | ECmp _ a b => okE sg a && okE sg b
  | ENot a => okE sg a
  | EInt _ | EPy _ | ELog _ => true
  end.

Definition okD (sg : smap) (d : dim) : bool := match d with DFix e => okE sg e | DFree _ => true end.

Definition okS (sg : smap) (sl : sel) : bool :=
  match sl with
  | SName _ => true
  | SSec a ds =>
      forallb (okD sg) ds &&
      match lookup sg a with
      | Some (SSec _ ds0) => is_some (filld ds0 (map (subst_dim sg) ds))
      | Some (SVal _) => false
      | _ => true
      end
  | SVal e => okE sg e
  end.

(** assignment targets: not an expression selector, element selectors fit *)
Definition okW (sg : smap) (x : string) : bool :=
  match lookup sg x with
  | Some (SSec _ ds) => is_some (fille ds [])
  | Some (SVal _) => false
  | _ => true
  end.
Definition okWa (sg : smap) (a : string) (idx : list expr) : bool :=
  match lookup sg a with
  | Some (SSec _ ds) => is_some (fille ds idx)
  | Some (SVal _) => false
  | _ => true
  end.
Definition okV (sg : smap) (v : string) : bool :=
  match lookup sg v with
  | Some (SName _) | None => true
  | _ => false
  end.

Definition stable_sels (sgn : smap) (w : list string) : bool :=
  forallb (fun p => disjointb (dyn_fv (snd p)) w) sgn.

(** [cls sg st]: the substitution is defined everywhere in [st] and, for every block, the run-time
    dependencies of its (resolved) selectors are not written by the (resolved) body *)
Fixpoint cls_stmt (sg : smap) (st : astmt) : bool :=
  match st with
  | AAssign x e => okE sg e && okW sg x
  | AStore a idx e => forallb (okE sg) idx && okE sg e && okWa sg a (map (subst sg) idx)
  | ADo v lo hi stp body =>
      okV sg v && okE sg lo && okE sg hi && (match stp with Some e => okE sg e | None => true end)
      && forallb (cls_stmt sg) body
  | AIf c tb eb => okE sg c && forallb (cls_stmt sg) tb && forallb (cls_stmt sg) eb
  | ASkip _ => true
  | AAssoc assocs body =>
      let sgn := subst_assocs sg assocs in
      forallb (fun p => okS sg (snd p)) assocs && forallb (fun p => sel_ok (snd p)) sgn
      && stable_sels sgn (writes (flat_map (resolve_stmt (sgn ++ sg)) body))
      && forallb (cls_stmt (sgn ++ sg)) body
  end.

Definition cls (sg : smap) (ss : list astmt) : bool := forallb (cls_stmt sg) ss.

(** the class of C29 (start_depth = 0) *)
Definition selectors_stable (ss : list astmt) : bool := cls [] ss.

(** the same without the stability test: "the model's substitution is defined" (used by the tie
    also on the witnesses of F17, where stability fails) *)
Fixpoint valid_stmt (sg : smap) (st : astmt) : bool :=
  match st with
  | AAssign x e => okE sg e && okW sg x
  | AStore a idx e => forallb (okE sg) idx && okE sg e && okWa sg a (map (subst sg) idx)
  | ADo v lo hi stp body =>
      okV sg v && okE sg lo && okE sg hi && (match stp with Some e => okE sg e | None => true end)
      && forallb (valid_stmt sg) body
  | AIf c tb eb => okE sg c && forallb (valid_stmt sg) tb && forallb (valid_stmt sg) eb
  | ASkip _ => true
  | AAssoc assocs body =>
      let sgn := subst_assocs sg assocs in
      forallb (fun p => okS sg (snd p)) assocs && forallb (valid_stmt (sgn ++ sg)) body
  end.
Definition valid (ss : list astmt) : bool := forallb (valid_stmt []) ss.

(** selectors whose evaluation cannot fail (needed for the converse direction: the resolved code
    no longer evaluates a selector that the block never uses) *)
Fixpoint totalE (e : expr) : bool :=
  match e with
  | EInt _ | EPy _ | EVar _ => true
  | ESum _ cs | EProd _ cs => forallb totalE cs
  | ECall f args => negb (is_intr f) && forallb totalE args
  | _ => false
  end.
Definition total_dim (d : dim) : bool := match d with DFix e => totalE e | DFree _ => true end.
Definition total_sel (sl : sel) : bool :=
  match sl with
  | SName _ => true
  | SSec _ ds => forallb total_dim ds
  | SVal e => totalE e
  end.

Fixpoint safe_stmt (sg : smap) (st : astmt) : bool :=
  match st with
  | ADo _ _ _ _ body => forallb (safe_stmt sg) body
  | AIf _ tb eb => forallb (safe_stmt sg) tb && forallb (safe_stmt sg) eb
  | AAssoc assocs body =>
      let sgn := subst_assocs sg assocs in
      forallb (fun p => total_sel (snd p)) sgn && forallb (safe_stmt (sgn ++ sg)) body
  | _ => true
  end.
Definition selectors_safe (ss : list astmt) : bool := forallb (safe_stmt []) ss.

(** * MergeAssociatesTransformer *)

Definition head_of (sl : sel) : option string :=
  match sl with SName y => Some y | SSec a _ => Some a | SVal _ => None end.

Definition dim_eqb (a b : dim) : bool :=
  match a, b with
  | DFix x, DFix y => expr_eqb x y
  | DFree x, DFree y => x =? y
  | _, _ => false
  end.
Fixpoint dims_eqb (a b : list dim) : bool :=
  match a, b with
  | [], [] => true
  | x :: r, y :: q => dim_eqb x y && dims_eqb r q
  | _, _ => false
  end.
Definition sel_eqb (a b : sel) : bool :=
  match a, b with
  | SName x, SName y => String.eqb x y
  | SSec x ds, SSec y es => String.eqb x y && dims_eqb ds es
  | SVal x, SVal y => expr_eqb x y
  | _, _ => false
  end.
Definition assoc_eqb (p q : string * sel) : bool := String.eqb (fst p) (fst q) && sel_eqb (snd p) (snd q).
Definition assoc_mem (p : string * sel) (l : list (string * sel)) : bool := existsb (assoc_eqb p) l.

(** [o.parent._update(associations=o.parent.associations + parent_assoc)], one child block at a time *)
Definition add_group (acc : list (string * sel)) (g : list (string * sel)) : list (string * sel) :=
  acc ++ filter (fun p => negb (assoc_mem p acc)) g.

(** which associations of a nested block move up: [not expr.scope == o.parent], i.e. the head symbol of the
    selector is not one of the names the parent block defined in the source.  An expression selector has no
    [.scope]: the code raises AttributeError ([None]). *)
Fixpoint moves (pn : list string) (l : list (string * sel)) : option (list bool) :=
  match l with
  | [] => Some []
  | (_, sl) :: r =>
      match head_of sl, moves pn r with
      | Some h, Some bs => Some (negb (memb h pn) :: bs)
      | _, _ => None
      end
  end.

Fixpoint pick {A} (bs : list bool) (l : list A) (want : bool) : list A :=
  match bs, l with
  | b :: br, x :: r => if Bool.eqb b want then x :: pick br r want else pick br r want
  | _, _ => []
  end.

(** [merge_stmt pn st]: [pn] = names defined (in the source) by the enclosing block, if any.
    Result: rewritten statement and the groups of associations handed to the enclosing block. *)
Fixpoint merge_stmt (pn : option (list string)) (st : astmt) : option (astmt * list (list (string * sel))) :=
  let fix go (pn' : option (list string)) (l : list astmt) : option (list astmt * list (list (string * sel))) :=
    match l with
    | [] => Some ([], [])
    | x :: r =>
        match merge_stmt pn' x with
        | None => None
        | Some (x', u1) =>
            match go pn' r with
            | None => None
            | Some (r', u2) => Some (x' :: r', u1 ++ u2)
            end
        end
    end in
  match st with
  | ADo v lo hi stp body =>
      match go pn body with Some (b', u) => Some (ADo v lo hi stp b', u) | None => None end
  | AIf c tb eb =>
      match go pn tb with
      | Some (t', u1) => match go pn eb with Some (e', u2) => Some (AIf c t' e', u1 ++ u2) | None => None end
      | None => None
      end
  | AAssoc assocs body =>
      match go (Some (map fst assocs)) body with
      | None => None
      | Some (b', groups) =>
          let assocs1 := fold_left add_group groups assocs in
          match pn with
          | None => Some (AAssoc assocs1 b', [])
          | Some names =>
              match moves names assocs1 with
              | None => None
              | Some bs =>
                  let up := pick bs assocs1 true in
                  Some (AAssoc (filter (fun p => negb (assoc_mem p up)) assocs1) b', [up])
              end
          end
      end
  | _ => Some (st, [])
  end.

Fixpoint merge_list (ss : list astmt) : option (list astmt) :=
  match ss with
  | [] => Some []
  | x :: r =>
      match merge_stmt None x, merge_list r with
      | Some (x', _), Some r' => Some (x' :: r')
      | _, _ => None
      end
  end.

(** total version used in statements of theorems: the input itself when the code raises *)
Definition merge (ss : list astmt) : list astmt := match merge_list ss with Some r => r | None => ss end.

(** * Structural equality on the source language and the correspondence comparators *)
Fixpoint assocs_eqb (a b : list (string * sel)) : bool :=
  match a, b with
  | [], [] => true
  | x :: r, y :: q => assoc_eqb x y && assocs_eqb r q
  | _, _ => false
  end.

Fixpoint astmt_eqb (a b : astmt) : bool :=
  let fix leqb (l1 l2 : list astmt) : bool :=
    match l1, l2 with
    | [], [] => true
    | x :: r1, y :: r2 => astmt_eqb x y && leqb r1 r2
    | _, _ => false
    end in
  match a, b with
  | AAssign x e, AAssign y e' => String.eqb x y && expr_eqb e e'
  | AStore x i e, AStore y j e' => String.eqb x y && list_expr_eqb i j && expr_eqb e e'
  | ADo v lo hi st b1, ADo w lo' hi' st' b2 =>
      String.eqb v w && expr_eqb lo lo' && expr_eqb hi hi' && oexpr_eqb st st' && leqb b1 b2
  | AIf c t e, AIf c' t' e' => expr_eqb c c' && leqb t t' && leqb e e'
  | ASkip l, ASkip m => String.eqb l m
  | AAssoc x b1, AAssoc y b2 => assocs_eqb x y && leqb b1 b2
  | _, _ => false
  end.

Fixpoint astmts_eqb (l1 l2 : list astmt) : bool :=
  match l1, l2 with
  | [], [] => true
  | x :: r1, y :: r2 => astmt_eqb x y && astmts_eqb r1 r2
  | _, _ => false
  end.

(** do_resolve_associates(routine) produced [impl] *)
Definition chk_resolve (src : list astmt) (impl : list stmt) : bool :=
  valid src && stmts_eqb (resolve src) impl.
(** ... and the input is in the class of the theorem *)
Definition chk_resolve_cls (src : list astmt) (impl : list stmt) : bool :=
  selectors_stable src && chk_resolve src impl.
(** do_resolve_associates(routine, start_depth=sd) *)
Definition chk_resolve_sd (sd : nat) (src impl : list astmt) : bool :=
  astmts_eqb (resolve_sd sd src) impl.
(** do_merge_associates(routine): [None] = AttributeError *)
Definition chk_merge (src : list astmt) (impl : option (list astmt)) : bool :=
  match merge_list src, impl with
  | Some m, Some i => astmts_eqb m i
  | None, None => true
  | _, _ => false
  end.

(** the validated class of merging: both programs are in the two-way class of resolution and resolve to the same code *)
Definition merge_ok (ss : list astmt) : bool :=
  selectors_stable ss && selectors_safe ss && selectors_stable (merge ss) && selectors_safe (merge ss)
  && stmts_eqb (resolve (merge ss)) (resolve ss).

(** the Python reference interpreter for the source language agrees with [aexec] *)
Definition chk_run (fuel : nat) (prog : list astmt)
           (scal0 : list (string * Z)) (cells0 : list (string * list Z * Z))
           (oscal : list string) (ocells : list (string * list Z)) (res : option (list Z)) : bool :=
  olist_z_eqb (arun_observe fuel prog scal0 cells0 oscal ocells) res.
