(** C18 — pickling round-trip of program units.  Definitions only (the scope-graph model of C17 is reused).

    Models the state handling of loki/subroutine.py (__getstate__ drops _ast and _parent; __setstate__ re-registers the
    member procedures and calls rescope_symbols), loki/module.py (__setstate__ resets the parent of the contained
    routines and scoped nodes, re-registers the routines, rescopes), loki/sourcefile.py (no __setstate__: the units
    restore themselves), loki/ir/nodes/abstract_nodes.py (ScopedNode.__getstate__ = constructor arguments + symbol
    table, __setstate__ = _update(..., rescope_symbols=True)), loki/types/symbol_table.py (state without _parent),
    loki/types/procedure_type.py (state without the weak reference _procedure) and loki/expression/symbols.py
    (__getinitargs__: every symbol is pickled WITHOUT its scope).
    The pickle byte protocol itself (memoisation of shared objects, reduce protocol) is not modelled: [getstate]
    describes the object graph that reaches the other side, [setstate] what the __setstate__ hooks rebuild. *)
From Coq Require Import ZArith List Bool String.
From LV Require Import models.M_C17.
Import ListNotations.
Open Scope Z_scope.

(** label of scope objects that travel with the pickle but are not part of the unit (e.g. the TypeDef a DerivedType
    of an enclosing module points to): after loading they are detached copies *)
Definition foreign : sid := -1.

(** ** what is written *)
Definition strip_tref (t : tref) : tref := {| tr_name := tr_name t; tr_ref := None; tr_resc := tr_resc t |}.
Definition strip_link (l : link) : link := match l with LProc _ => LNone | _ => l end.
Definition strip_entry (ne : string * entry) : string * entry :=
  (fst ne, {| e_tag := e_tag (snd ne); e_link := strip_link (e_link (snd ne)); e_trefs := map strip_tref (e_trefs (snd ne)) |}).
Definition strip_occ (o : occ) : occ := {| o_name := o_name o; o_ref := None |}.

(** no parent pointer, no symbol scope, no weak procedure reference survives; ids are the old object identities
    (only used to tell which objects were the same) *)
Fixpoint getstate (u : unit) : unit :=
  match u with
  | Unit i k nm _ tab occs ch => Unit i k nm None (map strip_entry tab) (map strip_occ occs) (map getstate ch)
  end.

(** ** what is rebuilt *)
Definition set_occ (c : chain) (o : occ) : occ := {| o_name := o_name o; o_ref := lookup_scope c (o_name o) |}.
Definition set_tref (c : chain) (t : tref) : tref :=
  if tr_resc t then {| tr_name := tr_name t; tr_ref := lookup_scope c (tr_name t); tr_resc := true |} else t.
Definition set_link (d : Z) (own : list sid) (ch : list unit) (n : string) (l : link) : link :=
  match member_id ch n with
  | Some j => LProc (j + d)                       (* re-registered member / module procedure *)
  | None => match l with
            | LType i => if memZ i own then LType (i + d) else LType foreign
            | _ => LNone
            end
  end.
Definition set_entry (d : Z) (own : list sid) (c : chain) (ch : list unit) (ne : string * entry) : string * entry :=
  (fst ne, {| e_tag := e_tag (snd ne); e_link := set_link d own ch (fst ne) (e_link (snd ne));
              e_trefs := map (set_tref c) (e_trefs (snd ne)) |}).

(** new objects (id + d); scoped nodes and the procedures contained in a MODULE get their parent back; the member
    procedures of a SUBROUTINE do not (Subroutine.__setstate__ only re-registers them), so their symbols are
    re-attached through a chain that ends at the member itself *)
Fixpoint setstate_u (d : Z) (own : list sid) (above : chain) (par : option sid) (u : unit) : unit :=
  match u with
  | Unit i k nm _ tab occs ch =>
      let c := (i + d, tab) :: above in
      Unit (i + d) k nm par (map (set_entry d own c ch) tab) (map (set_occ c) occs)
           (map (fun x => if is_proc_kind k && is_proc_kind (u_kind x)
                          then setstate_u d own [] None x
                          else setstate_u d own c (Some (i + d)) x) ch)
  end.

Definition unpickle (d : Z) (u : unit) : unit := setstate_u d (ids u) [] None (getstate u).

(** * the class *)
(** a symbol is attached exactly where its name resolves inside the unit (nowhere if nothing declares it) *)
Definition wfp_ref (c : chain) (n : string) (r : option sid) : bool := opt_sid_eqb r (lookup_scope c n).
Definition wfp_tref (c : chain) (t : tref) : bool := if tr_resc t then wfp_ref c (tr_name t) (tr_ref t) else true.
Fixpoint wfp_u (above : chain) (par : option sid) (u : unit) : bool :=
  match u with
  | Unit i k nm p tab occs ch =>
      let c := (i, tab) :: above in
      opt_sid_eqb p par
      && forallb (fun o => wfp_ref c (o_name o) (o_ref o)) occs
      && forallb (fun ne => forallb (wfp_tref c) (e_trefs (snd ne))) tab
      && forallb (wfp_u c (Some i)) ch
  end.
(** self-contained: top-level unit (no parent), every symbol resolved inside *)
Definition self_contained (u : unit) : bool := wfp_u [] None u.

(** no subroutine / function has member procedures *)
Fixpoint no_sub_members (u : unit) : bool :=
  match u with
  | Unit _ k _ _ _ _ ch => forallb (fun x => negb (is_proc_kind k && is_proc_kind (u_kind x)) && no_sub_members x) ch
  end.

(** everything the hooks do not rebuild is absent: symbols inside types that are not re-attached, procedure pointers
    other than the contained procedures, typedef pointers to the outside *)
Definition cleanp_link (own : list sid) (ch : list unit) (n : string) (l : link) : bool :=
  match l with
  | LNone => match member_id ch n with Some _ => false | None => true end
  | LProc i => match member_id ch n with Some j => i =? j | None => false end
  | LType i => match member_id ch n with Some _ => false | None => memZ i own end
  end.
Definition cleanp_tref (t : tref) : bool := tr_resc t || match tr_ref t with None => true | Some _ => false end.
Fixpoint cleanp_u (own : list sid) (u : unit) : bool :=
  match u with
  | Unit i k nm p tab occs ch =>
      forallb (fun ne => cleanp_link own ch (fst ne) (e_link (snd ne)) && forallb cleanp_tref (e_trefs (snd ne))) tab
      && forallb (cleanp_u own) ch
  end.
Definition cleanp (u : unit) : bool := cleanp_u (ids u) u.

(** every pointer of the unit is one of its own scope objects or the detached-copy label *)
Definition closed_in (u : unit) : bool := forallb (fun r => memZ r (ids u) || (r =? foreign)) (refs u).

(** * comparators for the correspondence *)
Definition chk_unpickle (d : Z) (u : unit) (expected : unit) : bool := unit_eqb (unpickle d u) expected.
Definition chk_class_p (claimed : bool) (d : Z) (u : unit) : bool :=
  implb claimed (bounded d [] u && self_contained u && no_sub_members u).
