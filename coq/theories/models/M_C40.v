(** C40 — normalising transformations are idempotent.
    Definitions only.  The models of associate resolution (M_C29), vector-notation resolution / explicit
    dimensions / range normalisation (M_C30) and dead-code removal (M_C32) are imported READ-ONLY; this file
    adds the liftings ("read the output of T back as an input of T"), the normal-form predicates, four small
    models of its own (convert_to_lower_case, single_variable_declaration, sanitise_imports,
    do_resolve_sequence_association) and the boolean comparators used by the correspondence run.

    Anchors: loki/transformations/sanitise/associates.py, array_indexing/vector_notation.py,
    array_indexing/array_indices.py, utilities.py, sanitise/sequence_associations.py, remove_code.py. *)
From Coq Require Import ZArith List Bool String Ascii.
From LV Require Import Base.Strings Base.Expr Base.MiniF.
From LV Require models.M_C29 models.M_C30 models.M_C32.
Import ListNotations.
Open Scope Z_scope.

(* ------------------------------------------------------------------------------------------ *)
(** * 1. do_resolve_associates *)

(** the transformation as an endofunction of the source language of C29: resolve, then read the result back
    ([M_C29.embed] is how an ASSOCIATE-free MiniF program is an [astmt] program) *)
Definition T_assoc (ss : list M_C29.astmt) : list M_C29.astmt := M_C29.embed (M_C29.resolve ss).
Definition T_assoc_sd (sd : nat) (ss : list M_C29.astmt) : list M_C29.astmt := M_C29.resolve_sd sd ss.

(** normal form of full resolution: no ASSOCIATE block, and only statement kinds the source language has *)
Fixpoint assoc_free_stmt (st : M_C29.astmt) : bool :=
  match st with
  | M_C29.ADo _ _ _ _ b => forallb assoc_free_stmt b
  | M_C29.AIf _ t e => forallb assoc_free_stmt t && forallb assoc_free_stmt e
  | M_C29.AAssoc _ _ => false
  | _ => true
  end.
Definition assoc_free (ss : list M_C29.astmt) : bool := forallb assoc_free_stmt ss.

(** normal form of partial resolution: no block nested deeper than [sd] ([d] = depth of the next block) *)
Fixpoint shallow_stmt (sd d : nat) (st : M_C29.astmt) : bool :=
  match st with
  | M_C29.ADo _ _ _ _ b => forallb (shallow_stmt sd d) b
  | M_C29.AIf _ t e => forallb (shallow_stmt sd d) t && forallb (shallow_stmt sd d) e
  | M_C29.AAssoc _ b => (d <=? sd)%nat && forallb (shallow_stmt sd (S d)) b
  | _ => true
  end.
Definition shallow (sd : nat) (ss : list M_C29.astmt) : bool := forallb (shallow_stmt sd 1) ss.

(** tie: Loki's first output is the model's, and the model applied to Loki's first output is Loki's second output *)
Definition chk40_assoc (src : list M_C29.astmt) (b1 b2 : list stmt) : bool :=
  stmts_eqb (M_C29.resolve src) b1 && stmts_eqb (M_C29.resolve (M_C29.embed b1)) b2.
Definition chk40_assoc_sd (sd : nat) (src b1 b2 : list M_C29.astmt) : bool :=
  M_C29.astmts_eqb (M_C29.resolve_sd sd src) b1 && M_C29.astmts_eqb (M_C29.resolve_sd sd b1) b2
  && shallow sd b1.
(** merging (not in the list of the property; the model of C29 is used for a witness only) *)
Definition merge_changes_again (ss : list M_C29.astmt) : bool :=
  match M_C29.merge_list ss with
  | Some m1 => match M_C29.merge_list m1 with
               | Some m2 => negb (M_C29.astmts_eqb m2 m1)
               | None => false
               end
  | None => false
  end.
Definition chk40_merge (src b1 b2 : list M_C29.astmt) : bool :=
  M_C29.chk_merge src (Some b1) && M_C29.chk_merge b1 (Some b2).

(* ------------------------------------------------------------------------------------------ *)
(** * 2. resolve_vector_notation, add/remove_explicit_array_dimensions, normalize_range_indexing *)

(** how the output of the resolution is read back as a section program: loops and conditionals are
    traversed, everything else is a section-free statement *)
Fixpoint vembed_stmt (s : stmt) : M_C30.vstmt :=
  match s with
  | SDo v lo hi st b => M_C30.VDo v lo hi st (map vembed_stmt b)
  | SIf c t e => M_C30.VIf c (map vembed_stmt t) (map vembed_stmt e)
  | _ => M_C30.VPlain s
  end.
Definition vembed (p : list stmt) : list M_C30.vstmt := map vembed_stmt p.

(** normal form: no section assignment and no WHERE remains *)
Fixpoint sec_free_stmt (s : M_C30.vstmt) : bool :=
  match s with
  | M_C30.VPlain _ => true
  | M_C30.VAssign _ _ _ => false
  | M_C30.VDo _ _ _ _ b => forallb sec_free_stmt b
  | M_C30.VIf _ t e => forallb sec_free_stmt t && forallb sec_free_stmt e
  | M_C30.VWhere _ _ _ => false
  end.
Definition sec_free (b : list M_C30.vstmt) : bool := forallb sec_free_stmt b.

(** the section-free program as a MiniF program *)
Fixpoint vflat_stmt (s : M_C30.vstmt) : stmt :=
  match s with
  | M_C30.VPlain s => s
  | M_C30.VDo v lo hi st b => SDo v lo hi st (map vflat_stmt b)
  | M_C30.VIf c t e => SIf c (map vflat_stmt t) (map vflat_stmt e)
  | M_C30.VAssign a _ _ => SSkip a
  | M_C30.VWhere _ _ _ => SSkip "where"
  end.
Definition vflat (b : list M_C30.vstmt) : list stmt := map vflat_stmt b.

Definition T_vec (ds : M_C30.decls) (b : list M_C30.vstmt) : option (list M_C30.vstmt) :=
  option_map vembed (M_C30.resolve_prog ds b).

(** tie: [parsed] the routine as parsed, [b1] Loki's output, [parsed1] Loki's output converted back to a section
    program by the harness (must be [vembed b1]), [b2] the output of the second application *)
Definition chk40_vec (ds : M_C30.decls) (parsed : list M_C30.vstmt) (b1 : list stmt)
           (parsed1 : list M_C30.vstmt) (b2 : list stmt) : bool :=
  M_C30.chk_resolve ds parsed (Some b1) && M_C30.vstmts_eqb (vembed b1) parsed1
  && sec_free parsed1 && M_C30.chk_resolve ds parsed1 (Some b2).

Definition chk40_explicit (ds : M_C30.decls) (b a1 a2 r1 r2 : list M_C30.vstmt) : bool :=
  M_C30.chk_add_explicit ds b a1 && M_C30.chk_add_explicit ds a1 a2
  && M_C30.chk_remove_explicit b r1 && M_C30.chk_remove_explicit r1 r2.

Definition chk40_normrange (ds : M_C30.decls) (p : list stmt) (p1 : list stmt) (d1 : M_C30.decls)
           (p2 : list stmt) (d2 : M_C30.decls) : bool :=
  M_C30.chk_normrange ds p (Some p1) d1 && M_C30.chk_normrange d1 p1 (Some p2) d2.

(* ------------------------------------------------------------------------------------------ *)
(** * 3. do_remove_dead_code *)

Definition is_lit (c : expr) : bool := match c with ELog _ => true | _ => false end.

(** a condition the transformer leaves alone: not a literal, and (with [use_simplify]) a fixed point of the
    modelled simplification *)
Definition cond_stable (c : expr) : bool :=
  match M_C32.simp_cond false [] c with Some c' => expr_eqb c' c | None => false end.
Definition cond_nf (u : bool) (c : expr) : bool := negb (is_lit c) && (negb u || cond_stable c).

Fixpoint dce_nf (u : bool) (s : stmt) : bool :=
  match s with
  | SIf c t e => cond_nf u c && forallb (dce_nf u) t && forallb (dce_nf u) e
  | SDo _ _ _ _ b => forallb (dce_nf u) b
  | SWhile _ b => forallb (dce_nf u) b
  | _ => true
  end.
Definition dce_nf_l (u : bool) (p : list stmt) : bool := forallb (dce_nf u) p.

(** every condition of the program is a fixed point of the modelled simplification *)
Fixpoint conds_stable_stmt (s : stmt) : bool :=
  match s with
  | SIf c t e => cond_stable c && forallb conds_stable_stmt t && forallb conds_stable_stmt e
  | SDo _ _ _ _ b => forallb conds_stable_stmt b
  | SWhile _ b => forallb conds_stable_stmt b
  | _ => true
  end.
Definition conds_stable (p : list stmt) : bool := forallb conds_stable_stmt p.

(** tie: no opinion where the expression model of C32 is undefined; [None] for Loki = ValidationError *)
Definition chk40_dce (u : bool) (p : list stmt) (o1 o2 : option (list stmt)) : bool :=
  match M_C32.dce u p, o1 with
  | Some q, Some p1 =>
      stmts_eqb q p1 &&
      match M_C32.dce u p1, o2 with
      | Some q2, Some p2 => stmts_eqb q2 p2 && (negb u || conds_stable p1)
      | None, _ => u            (* without simplification the model is total on its own output *)
      | Some _, None => false
      end
  | None, _ => true
  | Some _, None => false
  end.

(* ------------------------------------------------------------------------------------------ *)
(** * 4. convert_to_lower_case (own model)

    The function collects every variable whose name is not lower-case into a substitution map
    {v -> v.clone(name=lower)}, applies the map to itself with [recursive_expression_map_update]
    (max_iterations = 10) and then to body and spec; afterwards the same for inline calls.  A matched node is
    replaced WHOLESALE by its entry; after the 10 iterations an entry has its name and the names in the next 10
    levels of nested subscripts / arguments lowered, anything deeper is left as it was.  Nodes that are not
    keys (literals, operators, names that are already lower-case) are traversed without using up the budget. *)

Definition has_upper (s : string) : bool := negb (String.eqb (lower s) s).

Definition is_intr_ci (f : string) : bool :=
  let g := lower f in
  String.eqb g "mod" || String.eqb g "modulo" || String.eqb g "abs" || String.eqb g "min" || String.eqb g "max".

(** phase 1: variables and arrays; [n] = remaining budget of nested replacements *)
Fixpoint lcv (n : nat) (e : expr) {struct e} : expr :=
  match e with
  | EVar x => EVar (lower x)
  | ECall f args =>
      if is_intr_ci f then ECall f (map (lcv n) args)
      else if has_upper f then
        match n with
        | O => ECall (lower f) args
        | S m => ECall (lower f) (map (lcv m) args)
        end
      else ECall f (map (lcv n) args)
  | ESum p cs => ESum p (map (lcv n) cs)
  | EProd p cs => EProd p (map (lcv n) cs)
  | EQuot p a b => EQuot p (lcv n a) (lcv n b)
  | EPow p a b => EPow p (lcv n a) (lcv n b)
  | ECmp o a b => ECmp o (lcv n a) (lcv n b)
  | EAnd cs => EAnd (map (lcv n) cs)
  | EOr cs => EOr (map (lcv n) cs)
  | ENot a => ENot (lcv n a)
  | EInt _ | EPy _ | ELog _ => e
  end.

(** phase 2: inline calls (intrinsics) *)
Fixpoint lcc (n : nat) (e : expr) {struct e} : expr :=
  match e with
  | ECall f args =>
      if is_intr_ci f then
        (if has_upper f then
           match n with
           | O => ECall (lower f) args
           | S m => ECall (lower f) (map (lcc m) args)
           end
         else ECall f (map (lcc n) args))
      else ECall f (map (lcc n) args)
  | ESum p cs => ESum p (map (lcc n) cs)
  | EProd p cs => EProd p (map (lcc n) cs)
  | EQuot p a b => EQuot p (lcc n a) (lcc n b)
  | EPow p a b => EPow p (lcc n a) (lcc n b)
  | ECmp o a b => ECmp o (lcc n a) (lcc n b)
  | EAnd cs => EAnd (map (lcc n) cs)
  | EOr cs => EOr (map (lcc n) cs)
  | ENot a => ENot (lcc n a)
  | EInt _ | EPy _ | ELog _ | EVar _ => e
  end.

(** the left-hand side [a(idx)] is itself a key when [a] is not lower-case *)
Definition lcv_lhs (n : nat) (a : string) (idx : list expr) : list expr :=
  if has_upper a then match n with O => idx | S m => map (lcv m) idx end else map (lcv n) idx.

Fixpoint lcv_stmt (n : nat) (s : stmt) : stmt :=
  match s with
  | SAssign x e => SAssign (lower x) (lcv n e)
  | SStore a idx e => SStore (lower a) (lcv_lhs n a idx) (lcv n e)
  | SDo v lo hi st b => SDo (lower v) (lcv n lo) (lcv n hi) (option_map (lcv n) st) (map (lcv_stmt n) b)
  | SWhile c b => SWhile (lcv n c) (map (lcv_stmt n) b)
  | SIf c t e => SIf (lcv n c) (map (lcv_stmt n) t) (map (lcv_stmt n) e)
  | SCall f args => SCall (lower f) (map (lcv n) args)     (* an undeclared procedure name is a DeferredTypeSymbol *)
  | SSkip l => SSkip l                                      (* comments and pragmas are left alone *)
  end.

Fixpoint lcc_stmt (n : nat) (s : stmt) : stmt :=
  match s with
  | SAssign x e => SAssign x (lcc n e)
  | SStore a idx e => SStore a (map (lcc n) idx) (lcc n e)
  | SDo v lo hi st b => SDo v (lcc n lo) (lcc n hi) (option_map (lcc n) st) (map (lcc_stmt n) b)
  | SWhile c b => SWhile (lcc n c) (map (lcc_stmt n) b)
  | SIf c t e => SIf (lcc n c) (map (lcc_stmt n) t) (map (lcc_stmt n) e)
  | SCall f args => SCall f (map (lcc n) args)
  | SSkip l => SSkip l
  end.

Definition LC_ITER : nat := 10.      (* max_iterations of recursive_expression_map_update *)

Definition lc_n (n : nat) (p : list stmt) : list stmt := map (lcc_stmt n) (map (lcv_stmt n) p).
Definition lc (p : list stmt) : list stmt := lc_n LC_ITER p.

(** the specification: every name lower-case, whatever the nesting *)
Fixpoint lower_e (e : expr) : expr :=
  match e with
  | EVar x => EVar (lower x)
  | ECall f args => ECall (lower f) (map lower_e args)
  | ESum p cs => ESum p (map lower_e cs)
  | EProd p cs => EProd p (map lower_e cs)
  | EQuot p a b => EQuot p (lower_e a) (lower_e b)
  | EPow p a b => EPow p (lower_e a) (lower_e b)
  | ECmp o a b => ECmp o (lower_e a) (lower_e b)
  | EAnd cs => EAnd (map lower_e cs)
  | EOr cs => EOr (map lower_e cs)
  | ENot a => ENot (lower_e a)
  | EInt _ | EPy _ | ELog _ => e
  end.
Fixpoint lower_stmt (s : stmt) : stmt :=
  match s with
  | SAssign x e => SAssign (lower x) (lower_e e)
  | SStore a idx e => SStore (lower a) (map lower_e idx) (lower_e e)
  | SDo v lo hi st b => SDo (lower v) (lower_e lo) (lower_e hi) (option_map lower_e st) (map lower_stmt b)
  | SWhile c b => SWhile (lower_e c) (map lower_stmt b)
  | SIf c t e => SIf (lower_e c) (map lower_stmt t) (map lower_stmt e)
  | SCall f args => SCall (lower f) (map lower_e args)
  | SSkip l => SSkip l
  end.
Definition lower_all (p : list stmt) : list stmt := map lower_stmt p.

(** nesting depth of names: a name costs one level, the subscripts of an array / the arguments of an intrinsic
    are one level deeper; [lcv n] reaches every variable name iff [vdepth e <= n + 1] *)
Definition maxl (l : list nat) : nat := fold_right Nat.max O l.

Fixpoint vdepth (e : expr) : nat :=
  match e with
  | EVar _ => 1%nat
  | ECall f args => if is_intr_ci f then maxl (map vdepth args) else S (maxl (map vdepth args))
  | ESum _ cs | EProd _ cs | EAnd cs | EOr cs => maxl (map vdepth cs)
  | EQuot _ a b | EPow _ a b | ECmp _ a b => Nat.max (vdepth a) (vdepth b)
  | ENot a => vdepth a
  | EInt _ | EPy _ | ELog _ => O
  end.

Fixpoint idepth (e : expr) : nat :=
  match e with
  | ECall f args => if is_intr_ci f then S (maxl (map idepth args)) else maxl (map idepth args)
  | ESum _ cs | EProd _ cs | EAnd cs | EOr cs => maxl (map idepth cs)
  | EQuot _ a b | EPow _ a b | ECmp _ a b => Nat.max (idepth a) (idepth b)
  | ENot a => idepth a
  | EInt _ | EPy _ | ELog _ | EVar _ => O
  end.

Definition shallow_e (n : nat) (e : expr) : bool := (vdepth e <=? S n)%nat && (idepth e <=? S n)%nat.

Fixpoint shallow_lc_stmt (n : nat) (s : stmt) : bool :=
  match s with
  | SAssign _ e => shallow_e n e
  | SStore a idx e => shallow_e n (ECall a idx) && negb (is_intr_ci a) && shallow_e n e
  | SDo _ lo hi st b =>
      shallow_e n lo && shallow_e n hi && (match st with Some e => shallow_e n e | None => true end)
      && forallb (shallow_lc_stmt n) b
  | SWhile c b => shallow_e n c && forallb (shallow_lc_stmt n) b
  | SIf c t e => shallow_e n c && forallb (shallow_lc_stmt n) t && forallb (shallow_lc_stmt n) e
  | SCall _ args => forallb (shallow_e n) args
  | SSkip _ => true
  end.
(** the class on which the function reaches every name in one application *)
Definition lc_class (p : list stmt) : bool := forallb (shallow_lc_stmt LC_ITER) p.

(** normal form: every variable / array name (resp. every intrinsic name) is lower-case *)
Fixpoint lowv (e : expr) : bool :=
  match e with
  | EVar x => negb (has_upper x)
  | ECall f args => (is_intr_ci f || negb (has_upper f)) && forallb lowv args
  | ESum _ cs | EProd _ cs | EAnd cs | EOr cs => forallb lowv cs
  | EQuot _ a b | EPow _ a b | ECmp _ a b => lowv a && lowv b
  | ENot a => lowv a
  | EInt _ | EPy _ | ELog _ => true
  end.
Fixpoint lowi (e : expr) : bool :=
  match e with
  | ECall f args => (negb (is_intr_ci f) || negb (has_upper f)) && forallb lowi args
  | ESum _ cs | EProd _ cs | EAnd cs | EOr cs => forallb lowi cs
  | EQuot _ a b | EPow _ a b | ECmp _ a b => lowi a && lowi b
  | ENot a => lowi a
  | EInt _ | EPy _ | ELog _ | EVar _ => true
  end.
Definition low_e (e : expr) : bool := lowv e && lowi e.
Definition low_o (o : option expr) : bool := match o with Some e => low_e e | None => true end.
Fixpoint low_stmt (s : stmt) : bool :=
  match s with
  | SAssign x e => negb (has_upper x) && low_e e
  | SStore a idx e => negb (has_upper a) && forallb low_e idx && low_e e
  | SDo v lo hi st b => negb (has_upper v) && low_e lo && low_e hi && low_o st && forallb low_stmt b
  | SWhile c b => low_e c && forallb low_stmt b
  | SIf c t e => low_e c && forallb low_stmt t && forallb low_stmt e
  | SCall f args => negb (has_upper f) && forallb low_e args
  | SSkip _ => true
  end.
Definition low_prog (p : list stmt) : bool := forallb low_stmt p.

(** declarations with an initialiser: name, dimensions, initial value.  A declared symbol whose name is not
    lower-case is replaced wholesale (its dimensions are children of the replacement and share the budget; its
    initial value lives in the symbol's type and is NOT touched); a symbol with a lower-case name is traversed. *)
Definition ldecl := (string * list expr * option expr)%type.
Definition lc_decl (n : nat) (d : ldecl) : ldecl :=
  let '(x, dims, init) := d in
  if has_upper x then (lower x, match n with O => dims | S m => map (lcv m) dims end, init)
  else (x, map (lcv n) dims, option_map (lcv n) init).
Definition lc_decls (ds : list ldecl) : list ldecl := map (lc_decl LC_ITER) ds.

Definition init_class_decl (d : ldecl) : bool :=
  let '(x, dims, init) := d in
  forallb (fun e => (vdepth e <=? LC_ITER)%nat) dims &&
  match init with
  | None => true
  | Some e => if has_upper x then expr_eqb (lower_e e) e else (vdepth e <=? S LC_ITER)%nat
  end.
Definition init_class (ds : list ldecl) : bool := forallb init_class_decl ds.

Definition oexpr_eqb' (a b : option expr) : bool := oexpr_eqb a b.
Fixpoint ldecls_eqb (a b : list ldecl) : bool :=
  match a, b with
  | [], [] => true
  | (x, d, i) :: r, (y, d', i') :: q =>
      String.eqb x y && list_expr_eqb d d' && oexpr_eqb i i' && ldecls_eqb r q
  | _, _ => false
  end.

Definition chk40_lower (p p1 p2 : list stmt) (ds d1 d2 : list ldecl) : bool :=
  stmts_eqb (lc p) p1 && stmts_eqb (lc p1) p2 && ldecls_eqb (lc_decls ds) d1 && ldecls_eqb (lc_decls d1) d2.

(* ------------------------------------------------------------------------------------------ *)
(** * 5. single_variable_declaration (own model)

    A declaration statement: its type text and the declared names; with [group_by_shape] every name carries
    the printed form of its shape ("" for a scalar). *)
Definition memb (x : string) (l : list string) : bool := existsb (String.eqb x) l.

Definition sitem := (string * string)%type.              (* name, shape key *)
Definition sdecl := (string * list sitem)%type.          (* type text, declared symbols *)

Definition svd1 (vars : option (list string)) (d : sdecl) : list sdecl :=
  let '(ty, its) := d in
  match its with
  | _ :: _ :: _ =>
      let uniq := match vars with None => its | Some vs => filter (fun it => memb (fst it) vs) its end in
      match uniq with
      | [] => [d]
      | _ =>
          let keep := match vars with None => [] | Some vs => filter (fun it => negb (memb (fst it) vs)) its end in
          ((match keep with [] => [] | _ => [(ty, keep)] end) ++ map (fun it => (ty, [it])) uniq)%list
      end
  | _ => [d]
  end.
Definition svd (vars : option (list string)) (ds : list sdecl) : list sdecl := flat_map (svd1 vars) ds.

(** group_by_shape: a dict keyed by shape, in order of first occurrence *)
Fixpoint ins_group (k : string) (it : sitem) (gs : list (string * list sitem)) : list (string * list sitem) :=
  match gs with
  | [] => [(k, [it])]
  | (k', l) :: r => if String.eqb k' k then (k', (l ++ [it])%list) :: r else (k', l) :: ins_group k it r
  end.
Definition groups (its : list sitem) : list (string * list sitem) :=
  fold_left (fun gs it => ins_group (snd it) it gs) its [].
Definition svd_shape1 (d : sdecl) : list sdecl :=
  let '(ty, its) := d in
  match its with
  | _ :: _ :: _ => map (fun g => (ty, snd g)) (groups its)
  | _ => [d]
  end.
Definition svd_shape (ds : list sdecl) : list sdecl := flat_map svd_shape1 ds.

Definition sitem_eqb (a b : sitem) : bool := String.eqb (fst a) (fst b) && String.eqb (snd a) (snd b).
Fixpoint sitems_eqb (a b : list sitem) : bool :=
  match a, b with
  | [], [] => true
  | x :: r, y :: q => sitem_eqb x y && sitems_eqb r q
  | _, _ => false
  end.
Fixpoint sdecls_eqb (a b : list sdecl) : bool :=
  match a, b with
  | [], [] => true
  | (t, x) :: r, (u, y) :: q => String.eqb t u && sitems_eqb x y && sdecls_eqb r q
  | _, _ => false
  end.

(** [mode]: None = default, Some None = group_by_shape, Some (Some vs) = variables=vs *)
Definition svd_mode (mode : option (option (list string))) (ds : list sdecl) : list sdecl :=
  match mode with
  | None => svd None ds
  | Some None => svd_shape ds
  | Some (Some vs) => svd (Some vs) ds
  end.
Definition chk40_svd (mode : option (option (list string))) (ds d1 d2 : list sdecl) : bool :=
  sdecls_eqb (svd_mode mode ds) d1 && sdecls_eqb (svd_mode mode d1) d2.

(* ------------------------------------------------------------------------------------------ *)
(** * 6. sanitise_imports (own model)

    An import statement: module name and imported symbol names (Loki stores [()] both for [USE m] and for
    [USE m, ONLY:]).  [used]: lower-case names the routine uses; import statements are not visited by the
    collection of used symbols, so pruning does not change that set. *)
Definition imp := (string * list string)%type.

Definition redundant (used : list string) (s : string) : bool := negb (memb (lower s) used).
Definition has_redundant (used : list string) (im : imp) : bool := existsb (redundant used) (snd im).

Definition prune1 (used : list string) (im : imp) : list imp :=
  match filter (fun s => negb (redundant used s)) (snd im) with
  | [] => []                        (* symbol list empty: the import is removed (also a blanket USE) *)
  | ss => [(fst im, ss)]
  end.
(** nothing happens unless some imported symbol is redundant *)
Definition prune (used : list string) (ims : list imp) : list imp :=
  if existsb (has_redundant used) ims then flat_map (prune1 used) ims else ims.

Fixpoint strs_eqb (a b : list string) : bool :=
  match a, b with
  | [], [] => true
  | x :: r, y :: q => String.eqb x y && strs_eqb r q
  | _, _ => false
  end.
Fixpoint imps_eqb (a b : list imp) : bool :=
  match a, b with
  | [], [] => true
  | (m, x) :: r, (k, y) :: q => String.eqb m k && strs_eqb x y && imps_eqb r q
  | _, _ => false
  end.
Definition chk40_imports (used : list string) (ims i1 i2 : list imp) : bool :=
  imps_eqb (prune used ims) i1 && imps_eqb (prune used i1) i2.

(* ------------------------------------------------------------------------------------------ *)
(** * 7. do_resolve_sequence_association (own model)

    One actual argument of a call: an arbitrary expression, or a reference [a(dims)] to a declared array
    whose subscripts are expressions or ranges.  [rank]: [Some n] when the matching dummy is an array of rank n. *)
Inductive qdim := QS (e : expr) | QR (lo hi : option expr).
Inductive carg := CExpr (e : expr) | CRef (a : string) (dims : list qdim).

Definition is_qs (d : qdim) : bool := match d with QS _ => true | QR _ _ => false end.

(** check_if_scalar_syntax *)
Definition scalar_syntax (rank : option nat) (a : carg) : bool :=
  match rank, a with
  | Some _, CRef _ (d :: ds) => forallb is_qs (d :: ds)
  | _, _ => false
  end.

Definition upper_of (s : M_C30.dshape) : expr :=
  match s with M_C30.DSize e => e | M_C30.DRange _ hi => hi end.

Fixpoint zip_dims (sh : list M_C30.dshape) (dims : list qdim) : list qdim :=
  match sh, dims with
  | s :: sr, QS e :: dr => QR (Some e) (Some (upper_of s)) :: zip_dims sr dr
  | s :: sr, QR lo hi :: dr => QR lo hi :: zip_dims sr dr         (* not reached under scalar_syntax *)
  | _, _ => []
  end.

Definition seq_arg (ds : M_C30.decls) (rank : option nat) (a : carg) : carg :=
  if scalar_syntax rank a then
    match rank, a with
    | Some n, CRef x dims =>
        let new := match M_C30.lookup_decl ds x with
                   | Some (s :: sh) => zip_dims (firstn n (s :: sh)) (firstn n dims)
                   | _ => repeat (QR None None) n
                   end in
        CRef x (new ++ skipn n dims)%list
    | _, _ => a
    end
  else a.

Fixpoint seq_args (ds : M_C30.decls) (ranks : list (option nat)) (args : list carg) : list carg :=
  match ranks, args with
  | r :: rr, a :: ar => seq_arg ds r a :: seq_args ds rr ar
  | _, _ => args
  end.

Definition qdim_eqb (a b : qdim) : bool :=
  match a, b with
  | QS x, QS y => expr_eqb x y
  | QR l h, QR l' h' => oexpr_eqb l l' && oexpr_eqb h h'
  | _, _ => false
  end.
Fixpoint qdims_eqb (a b : list qdim) : bool :=
  match a, b with
  | [], [] => true
  | x :: r, y :: q => qdim_eqb x y && qdims_eqb r q
  | _, _ => false
  end.
Definition carg_eqb (a b : carg) : bool :=
  match a, b with
  | CExpr x, CExpr y => expr_eqb x y
  | CRef x d, CRef y d' => String.eqb x y && qdims_eqb d d'
  | _, _ => false
  end.
Fixpoint cargs_eqb (a b : list carg) : bool :=
  match a, b with
  | [], [] => true
  | x :: r, y :: q => carg_eqb x y && cargs_eqb r q
  | _, _ => false
  end.
Definition chk40_seq (ds : M_C30.decls) (ranks : list (option nat)) (args a1 a2 : list carg) : bool :=
  cargs_eqb (seq_args ds ranks args) a1 && cargs_eqb (seq_args ds ranks a1) a2.

(* ------------------------------------------------------------------------------------------ *)
(** * 8. do_remove_dead_code with SELECT CASE (RemoveDeadCodeTransformer.visit_MultiConditional)

    The shared MiniF core has no SELECT CASE: own source-level statements.  [KSel sel vals bodies dflt] is
    Loki's MultiConditional (values and bodies are parallel tuples).  The transformer visits ALL bodies and
    the default body first; then the first case one of whose values provably equals the selector
    ([symbolic_op(expr, eq, v)]: here both integer literals with the same value, or the same variable) is
    spliced in place of the construct; a constant selector WITHOUT a matching value is not pruned (the code
    only falls back to the default body for a selector that simplifies to [.false.]).  Outside the modelled
    class ([None]): selectors / case values other than integer literals and variables, a case body that is
    empty after pruning (Transformer.visit_tuple then drops it and the remaining bodies shift), tuples of
    different length.  IF is pruned exactly as in [M_C32.dce1]. *)
Inductive kstmt : Type :=
| KS     (s : stmt)                                  (* assignment, store, call, comment: left alone *)
| KDo    (v : string) (lo hi : expr) (st : option expr) (body : list kstmt)
| KWhile (c : expr) (body : list kstmt)
| KIf    (c : expr) (tb eb : list kstmt)
| KSel   (sel : expr) (vals : list (list expr)) (bodies : list (list kstmt)) (dflt : list kstmt).

Definition sel_atom (e : expr) : bool := match e with EInt _ | EVar _ => true | _ => false end.

Definition kmatch (sel v : expr) : bool :=
  match sel, v with
  | EInt a, EInt b => a =? b
  | EVar x, EVar y => String.eqb x y
  | _, _ => false
  end.

(** index of the first case with a matching value *)
Fixpoint first_match (sel : expr) (vals : list (list expr)) : option nat :=
  match vals with
  | [] => None
  | vs :: r => if existsb (kmatch sel) vs then Some O else option_map S (first_match sel r)
  end.

Definition k_is_elseif (e : list kstmt) : bool := match e with [KIf _ _ _] => true | _ => false end.
Definition k_is_nil (e : list kstmt) : bool :=
  match e with
  | [] => true
  | KIf _ _ _ :: _ :: _ => true
  | _ => false
  end.
Definition is_nil_l {A} (l : list A) : bool := match l with [] => true | _ => false end.

Definition sel_class (sel : expr) (vals : list (list expr)) (bodies : list (list kstmt)) : bool :=
  sel_atom sel && forallb (forallb sel_atom) vals && Nat.eqb (List.length vals) (List.length bodies)
  && negb (existsb is_nil_l bodies).

Fixpoint kdce1 (u : bool) (st : kstmt) : option (list kstmt) :=
  let fix go (l : list kstmt) : option (list kstmt) :=
    match l with
    | [] => Some []
    | s :: r => match kdce1 u s, go r with Some a, Some b => Some (a ++ b)%list | _, _ => None end
    end in
  let fix gos (ll : list (list kstmt)) : option (list (list kstmt)) :=
    match ll with
    | [] => Some []
    | l :: r => match go l, gos r with Some a, Some b => Some (a :: b) | _, _ => None end
    end in
  match st with
  | KS _ => Some [st]
  | KDo v lo hi stp b => match go b with Some b' => Some [KDo v lo hi stp b'] | None => None end
  | KWhile c b => match go b with Some b' => Some [KWhile c b'] | None => None end
  | KIf c t e =>
      match (if u then M_C32.simp_cond false [] c else Some c), go t, go e with
      | Some c', Some t', Some e' =>
          match c' with
          | ELog true => Some t'
          | ELog false => Some e'
          | _ => if k_is_elseif e && k_is_nil e' then None else Some [KIf c' t' e']
          end
      | _, _, _ => None
      end
  | KSel sel vals bodies dflt =>
      match gos bodies, go dflt with
      | Some bs, Some d =>
          if sel_class sel vals bs then
            match first_match sel vals with
            | Some i => nth_error bs i
            | None => Some [KSel sel vals bs d]
            end
          else None
      | _, _ => None
      end
  end.

Fixpoint kdce (u : bool) (l : list kstmt) : option (list kstmt) :=
  match l with
  | [] => Some []
  | s :: r => match kdce1 u s, kdce u r with Some a, Some b => Some (a ++ b)%list | _, _ => None end
  end.

(** normal form *)
Definition no_match (sel : expr) (vals : list (list expr)) : bool :=
  match first_match sel vals with None => true | Some _ => false end.
Fixpoint knf (u : bool) (s : kstmt) : bool :=
  match s with
  | KS _ => true
  | KDo _ _ _ _ b => forallb (knf u) b
  | KWhile _ b => forallb (knf u) b
  | KIf c t e => cond_nf u c && forallb (knf u) t && forallb (knf u) e
  | KSel sel vals bodies dflt =>
      sel_class sel vals bodies && no_match sel vals
      && forallb (forallb (knf u)) bodies && forallb (knf u) dflt
  end.
Definition knf_l (u : bool) (p : list kstmt) : bool := forallb (knf u) p.

Fixpoint kconds_stable_stmt (s : kstmt) : bool :=
  match s with
  | KS _ => true
  | KDo _ _ _ _ b => forallb kconds_stable_stmt b
  | KWhile _ b => forallb kconds_stable_stmt b
  | KIf c t e => cond_stable c && forallb kconds_stable_stmt t && forallb kconds_stable_stmt e
  | KSel _ _ bodies dflt => forallb (forallb kconds_stable_stmt) bodies && forallb kconds_stable_stmt dflt
  end.
Definition kconds_stable (p : list kstmt) : bool := forallb kconds_stable_stmt p.

(** structural equality *)
Fixpoint lle_eqb (a b : list (list expr)) : bool :=
  match a, b with
  | [], [] => true
  | x :: r, y :: q => list_expr_eqb x y && lle_eqb r q
  | _, _ => false
  end.

Fixpoint kstmt_eqb (a b : kstmt) : bool :=
  let fix leqb (l1 l2 : list kstmt) : bool :=
    match l1, l2 with
    | [], [] => true
    | x :: r1, y :: r2 => kstmt_eqb x y && leqb r1 r2
    | _, _ => false
    end in
  let fix lleqb (l1 l2 : list (list kstmt)) : bool :=
    match l1, l2 with
    | [], [] => true
    | x :: r1, y :: r2 => leqb x y && lleqb r1 r2
    | _, _ => false
    end in
  match a, b with
  | KS s, KS t => stmt_eqb s t
  | KDo v lo hi st b1, KDo w lo' hi' st' b2 =>
      String.eqb v w && expr_eqb lo lo' && expr_eqb hi hi' && oexpr_eqb st st' && leqb b1 b2
  | KWhile c b1, KWhile c' b2 => expr_eqb c c' && leqb b1 b2
  | KIf c t e, KIf c' t' e' => expr_eqb c c' && leqb t t' && leqb e e'
  | KSel s v b d, KSel s' v' b' d' => expr_eqb s s' && lle_eqb v v' && lleqb b b' && leqb d d'
  | _, _ => false
  end.
Fixpoint kstmts_eqb (l1 l2 : list kstmt) : bool :=
  match l1, l2 with
  | [], [] => true
  | x :: r1, y :: r2 => kstmt_eqb x y && kstmts_eqb r1 r2
  | _, _ => false
  end.

(** tie: as [chk40_dce] ([None] for Loki = ValidationError) *)
Definition chk40_kdce (u : bool) (p : list kstmt) (o1 o2 : option (list kstmt)) : bool :=
  match kdce u p, o1 with
  | Some q, Some p1 =>
      kstmts_eqb q p1 &&
      match kdce u p1, o2 with
      | Some q2, Some p2 => kstmts_eqb q2 p2 && (negb u || kconds_stable p1)
      | None, _ => u
      | Some _, None => false
      end
  | None, _ => true
  | Some _, None => false
  end.
