(** C35 — Fortran-to-C transpilation (FortranCTransformation + cgen).  Definitions only.

    - [ctok] / [c_parse]: tokens of the generated C text and an executable reference reader of C expressions
      (precedence climbing with fuel: || < && < == != < relational < + - < * / % < unary - ! < postfix/primary),
      used by the correspondence to read the REAL cgen text inside Coq;
    - [cexpr] / [evalC]: C99 expression semantics on ints and doubles (exact rationals): [/] on two ints truncates
      ([Z.quot]), [%] is [Z.rem] and needs two ints, an int meeting a double is converted (usual arithmetic
      conversions), [fabs fmin fmax pow copysign] return doubles, subscripts must be ints, [&&]/[||] short-circuit;
    - [c_pre]: the tree-to-tree part of FortranCTransformation that decides values: index shift to 0-based and
      column-major flattening of the OUTERMOST array reference of a nest ([i-1 + n1*(j-1 + n2*(...))]), renaming of
      the intrinsics (min -> fmin, max -> fmax, abs -> fabs, sign -> copysign), [mod] printed as [(a)%(b)];
    - [c_model byref decl e := py2c byref (py_ast arrs (c_pre decl e) false)]: CCodeMapper followed by a C parser as a
      structural map (it shares the sum / product / unary-minus structure with the Python model of C36 because both
      printers inherit LokiStringifyMapper), valid on the decidable class [c_faithful];
    - [flat]: the column-major offset and its box. *)
From Coq Require Import ZArith QArith List Bool String.
From LV Require models.M_C06.
From LV Require Import Base.Expr Base.MiniF models.M_C36.
Import ListNotations.
Open Scope Z_scope.

(** * Tokens of C expressions *)
Inductive ctok :=
| KInt (n : Z) | KId (s : string)
| KLP | KRP | KLB | KRB | KComma
| KPlus | KMinus | KStar | KSlash | KPct
| KRel (op : cmpop) | KNot | KAnd | KOr
| KDec      (* "--": the decrement operator *)
| KOther.

(** * C abstract syntax (expressions) *)
Inductive cbin := OAdd | OSub | OMul | ODiv | OMod | OAnd | OOr.

Inductive cexpr :=
| CNum (z : Z) | CVar (x : string) | CDeref (x : string) | CBoolLit (b : bool)
| CBin (op : cbin) (a b : cexpr)
| CNeg (a : cexpr) | CNot (a : cexpr)
| CCmp (op : cmpop) (a b : cexpr)
| CCall (f : string) (args : list cexpr)
| CIdx (a : string) (i : cexpr)
| CBad.

(** * Reference reader *)
Definition binop_of (lv : nat) (t : ctok) : option (cexpr -> cexpr -> cexpr) :=
  match lv, t with
  | 0%nat, KOr => Some (CBin OOr)
  | 1%nat, KAnd => Some (CBin OAnd)
  | 2%nat, KRel Ceq => Some (CCmp Ceq)
  | 2%nat, KRel Cne => Some (CCmp Cne)
  | 3%nat, KRel Clt => Some (CCmp Clt)
  | 3%nat, KRel Cle => Some (CCmp Cle)
  | 3%nat, KRel Cgt => Some (CCmp Cgt)
  | 3%nat, KRel Cge => Some (CCmp Cge)
  | 4%nat, KPlus => Some (CBin OAdd)
  | 4%nat, KMinus => Some (CBin OSub)
  | 5%nat, KStar => Some (CBin OMul)
  | 5%nat, KSlash => Some (CBin ODiv)
  | 5%nat, KPct => Some (CBin OMod)
  | _, _ => None
  end.

Fixpoint cp (fuel : nat) (lv : nat) (ts : list ctok) {struct fuel} : option (cexpr * list ctok) :=
  match fuel with
  | O => None
  | S f =>
      match lv with
      | 0%nat | 1%nat | 2%nat | 3%nat | 4%nat | 5%nat =>
          match cp f (S lv) ts with Some (t, r) => cloop f lv t r | None => None end
      | 6%nat =>
          match ts with
          | KMinus :: r => match cp f 6 r with Some (t, r') => Some (CNeg t, r') | None => None end
          | KNot :: r => match cp f 6 r with Some (t, r') => Some (CNot t, r') | None => None end
          | _ => cp f 7 ts
          end
      | _ =>
          match ts with
          | KInt n :: r => Some (CNum n, r)
          | KId x :: KLP :: KRP :: r => Some (CCall x [], r)
          | KId x :: KLP :: r =>
              match cargs f r with Some (args, r') => Some (CCall x args, r') | None => None end
          | KId x :: KLB :: r =>
              match cp f 0 r with Some (i, KRB :: r') => Some (CIdx x i, r') | _ => None end
          | KId x :: r =>
              Some ((if String.eqb x "true" then CBoolLit true else if String.eqb x "false" then CBoolLit false else CVar x), r)
          | KLP :: KStar :: KId x :: KRP :: r => Some (CDeref x, r)
          | KLP :: r => match cp f 0 r with Some (t, KRP :: r') => Some (t, r') | _ => None end
          | _ => None
          end
      end
  end
with cloop (fuel : nat) (lv : nat) (acc : cexpr) (ts : list ctok) {struct fuel} : option (cexpr * list ctok) :=
  match fuel with
  | O => None
  | S f =>
      match ts with
      | t :: r =>
          match binop_of lv t with
          | Some mk => match cp f (S lv) r with Some (t2, r') => cloop f lv (mk acc t2) r' | None => None end
          | None => Some (acc, ts)
          end
      | [] => Some (acc, ts)
      end
  end
with cargs (fuel : nat) (ts : list ctok) {struct fuel} : option (list cexpr * list ctok) :=
  match fuel with
  | O => None
  | S f =>
      match cp f 0 ts with
      | Some (t, KComma :: r) => match cargs f r with Some (a, r') => Some (t :: a, r') | None => None end
      | Some (t, KRP :: r) => Some ([t], r)
      | _ => None
      end
  end.

Definition c_parse (ts : list ctok) : option cexpr :=
  match cp (8 * List.length ts + 16) 0 ts with
  | Some (t, []) => Some t
  | _ => None
  end.

(** * C values and semantics *)
Inductive cval := CI (z : Z) | CD (q : Q).

Record cenv := {
  cv_var : string -> option Z;          (* by-value arguments and locals *)
  cv_ptr : string -> option Z;          (* targets of the pointer arguments *)
  cv_arr : string -> Z -> option Z }.   (* flat arrays; [None] outside the allocated range *)

Definition cq (v : cval) : Q := match v with CI z => inject_Z z | CD q => q end.
Definition c_truthy (v : cval) : bool := match v with CI z => negb (z =? 0) | CD q => negb (Qnum q =? 0) end.
Definition b2c (b : bool) : cval := CI (if b then 1 else 0).

(** conversion to int on assignment to an int object: truncation toward zero *)
Definition c_to_int (v : cval) : Z := match v with CI z => z | CD q => Z.quot (Qnum q) (Zpos (Qden q)) end.

Definition c_arith (op : cbin) (x y : cval) : option cval :=
  match x, y with
  | CI a, CI b =>
      match op with
      | OAdd => Some (CI (a + b)) | OSub => Some (CI (a - b)) | OMul => Some (CI (a * b))
      | ODiv => if b =? 0 then None else Some (CI (Z.quot a b))
      | OMod => if b =? 0 then None else Some (CI (Z.rem a b))
      | _ => None
      end
  | _, _ =>
      let a := cq x in let b := cq y in
      match op with
      | OAdd => Some (CD (Qred (a + b))) | OSub => Some (CD (Qred (a - b))) | OMul => Some (CD (Qred (a * b)))
      | ODiv => if Qnum b =? 0 then None else Some (CD (Qred (a / b)))
      | _ => None                       (* % on a double does not compile *)
      end
  end.

Definition c_cmp (op : cmpop) (x y : cval) : cval :=
  match x, y with
  | CI a, CI b => b2c (cmp_z op a b)
  | _, _ => b2c (cmp_q op (cq x) (cq y))
  end.

Definition c_neg (x : cval) : cval := match x with CI a => CI (- a) | CD q => CD (Qred (- q)) end.

Definition q_abs (q : Q) : Q := Qmake (Z.abs (Qnum q)) (Qden q).

Definition c_builtin (f : string) (vs : list cval) : option cval :=
  if String.eqb f "fabs" then
    match vs with [a] => Some (CD (q_abs (cq a))) | _ => None end
  else if String.eqb f "fmin" then
    match vs with [a; b] => Some (CD (if cmp_q Clt (cq b) (cq a) then cq b else cq a)) | _ => None end
  else if String.eqb f "fmax" then
    match vs with [a; b] => Some (CD (if cmp_q Clt (cq a) (cq b) then cq b else cq a)) | _ => None end
  else if String.eqb f "pow" then
    match vs with
    | [a; b] => match b with
                | CI n => if 0 <=? n then Some (CD (Qred (qpow_pos (cq a) (Z.to_nat n))))
                          else if Qnum (cq a) =? 0 then None else Some (CD (Qred (/ qpow_pos (cq a) (Z.to_nat (- n)))))
                | CD _ => None
                end
    | _ => None
    end
  else if String.eqb f "copysign" then
    match vs with [a; b] => Some (CD (if Qnum (cq b) <? 0 then Qopp (q_abs (cq a)) else q_abs (cq a))) | _ => None end
  else if String.eqb f "fmod" then
    match vs with
    | [a; b] => if Qnum (cq b) =? 0 then None
                else let q := (cq a / cq b)%Q in
                     Some (CD (Qred (cq a - cq b * inject_Z (Z.quot (Qnum q) (Zpos (Qden q))))))
    | _ => None
    end
  else None.

Fixpoint evalC (ce : cenv) (e : cexpr) {struct e} : option cval :=
  match e with
  | CNum z => Some (CI z)
  | CVar x => match cv_var ce x with Some v => Some (CI v) | None => None end
  | CDeref x => match cv_ptr ce x with Some v => Some (CI v) | None => None end
  | CBoolLit b => Some (b2c b)
  | CBin OAnd a b =>
      match evalC ce a with
      | Some x => if c_truthy x then match evalC ce b with Some y => Some (b2c (c_truthy y)) | None => None end
                  else Some (b2c false)
      | None => None
      end
  | CBin OOr a b =>
      match evalC ce a with
      | Some x => if c_truthy x then Some (b2c true)
                  else match evalC ce b with Some y => Some (b2c (c_truthy y)) | None => None end
      | None => None
      end
  | CBin op a b =>
      match evalC ce a, evalC ce b with Some x, Some y => c_arith op x y | _, _ => None end
  | CNeg a => match evalC ce a with Some x => Some (c_neg x) | None => None end
  | CNot a => match evalC ce a with Some x => Some (b2c (negb (c_truthy x))) | None => None end
  | CCmp op a b =>
      match evalC ce a, evalC ce b with Some x, Some y => Some (c_cmp op x y) | _, _ => None end
  | CCall f args =>
      match (fix go (l : list cexpr) : option (list cval) :=
               match l with
               | [] => Some []
               | a :: r => match evalC ce a, go r with Some v, Some vs => Some (v :: vs) | _, _ => None end
               end) args with
      | Some vs => c_builtin f vs
      | None => None
      end
  | CIdx a i =>
      match evalC ce i with
      | Some (CI k) => match cv_arr ce a k with Some v => Some (CI v) | None => None end
      | _ => None                       (* a double subscript does not compile *)
      end
  | CBad => None
  end.

(** * The tree-to-tree part of FortranCTransformation *)
(** [flatten_arrays(order='C')] after [invert_array_indices] and [shift_to_zero_indexing]:
    [d1 + n1*(d2 + n2*(...))], built from the right as [Sum((d_j, Product((n_j, acc))))] *)
Fixpoint flat_tree (shape : list Z) (ds : list expr) : expr :=
  match ds, shape with
  | [], _ => EInt 0
  | [d], _ => d
  | d :: r, n :: sh => ESum false [d; EProd false [EInt n; flat_tree sh r]]
  | d :: _, [] => d
  end.

Definition rename_c (f : string) : string :=
  if String.eqb f "min" then "fmin"%string else if String.eqb f "max" then "fmax"%string
  else if String.eqb f "abs" then "fabs"%string else if String.eqb f "sign" then "copysign"%string else f.

Definition shape_of (decl : list (string * list Z)) (a : string) : option (list Z) := assoc_s decl a.

(** [CCodeMapper.map_inline_call] prints [mod] as the double-valued [fmod(a, b)] instead of [(a)%(b)] as soon as one of the
    (renamed) double-valued intrinsics occurs anywhere in its arguments (their procedure symbols are not INTEGER-typed) *)
Definition dbl_name (f : string) : bool := existsb (String.eqb f) ["abs"; "min"; "max"; "sign"]%string.
Fixpoint has_dcall (e : expr) {struct e} : bool :=
  match e with
  | EInt _ | EPy _ | EVar _ | ELog _ => false
  | ESum _ cs | EProd _ cs | EAnd cs | EOr cs => existsb has_dcall cs
  | EQuot _ a b | EPow _ a b | ECmp _ a b => has_dcall a || has_dcall b
  | ENot a => has_dcall a
  | ECall f args => dbl_name f || existsb has_dcall args
  end.

Fixpoint c_pre (decl : list (string * list Z)) (e : expr) {struct e} : expr :=
  match e with
  | EInt _ | EPy _ | EVar _ | ELog _ => e
  | ESum p cs => ESum p (map (c_pre decl) cs)
  | EProd p cs => EProd p (map (c_pre decl) cs)
  | EQuot p n d => EQuot p (c_pre decl n) (c_pre decl d)
  | EPow p b x => EPow p (c_pre decl b) (c_pre decl x)
  | ECmp op a b => ECmp op (c_pre decl a) (c_pre decl b)
  | EAnd cs => EAnd (map (c_pre decl) cs)
  | EOr cs => EOr (map (c_pre decl) cs)
  | ENot a => ENot (c_pre decl a)
  | ECall f args =>
      match shape_of decl f with
      | Some sh => ECall f [flat_tree sh (map shift_idx args)]     (* the dimensions themselves are NOT visited *)
      | None => ECall (if String.eqb f "mod" && existsb has_dcall args then "fmod"%string else rename_c f)
                      (map (c_pre decl) args)
      end
  end.

(** * CCodeMapper + a C parser, as a map from the Python-side structural AST *)
Definition c_fname (f : string) : string :=
  if String.eqb f "np.exp" then "exp"%string else if String.eqb f "np.sqrt" then "sqrt"%string else f.

Fixpoint py2c (byref : list string) (p : pyexpr) {struct p} : cexpr :=
  match p with
  | PNum z => CNum z
  | PName x => if existsb (String.eqb x) byref then CDeref x else CVar x
  | PBoolLit b => CBoolLit b
  | PBin BAdd a b => CBin OAdd (py2c byref a) (py2c byref b)
  | PBin BSub a b => CBin OSub (py2c byref a) (py2c byref b)
  | PBin BMul a b => CBin OMul (py2c byref a) (py2c byref b)
  | PBin BDiv a b => CBin ODiv (py2c byref a) (py2c byref b)
  | PBin BPow a b => CCall "pow" [py2c byref a; py2c byref b]
  | PBin _ _ _ => CBad
  | PNeg a => CNeg (py2c byref a)
  | PCmp op a b => CCmp op (py2c byref a) (py2c byref b)
  | PBoolOp k l =>
      match map (py2c byref) l with
      | [] => CBad
      | c :: r => fold_left (CBin (if k then OAnd else OOr)) r c
      end
  | PNot a => CNot (py2c byref a)
  | PCall f args =>
      if String.eqb f "mod" then
        match args with [a; b] => CBin OMod (py2c byref a) (py2c byref b) | _ => CBad end
      else CCall (c_fname f) (map (py2c byref) args)
  | PIndex a idx => match idx with [i] => CIdx a (py2c byref i) | _ => CBad end
  | PBad => CBad
  end.

Definition c_model (byref : list string) (decl : list (string * list Z)) (e : expr) : cexpr :=
  py2c byref (py_ast (map fst decl) (c_pre decl e) false).

(** * The class on which the structural map is what a C compiler parses from CCodeMapper's text *)
Definition is_mod (e : expr) : bool := match e with ECall f _ => String.eqb f "mod" | _ => false end.
(** text with a top-level [* / %] *)
Definition c_open_mul (e : expr) : bool := open_mul e || is_mod e.
(** text that starts with a minus sign *)
Definition starts_minus (e : expr) : bool :=
  match e with
  | EInt v => v <? 0
  | EProd false [c0; _] => is_m1 c0
  | _ => false
  end.

Definition c_prod_ok (cs : list expr) : bool :=
  match cs with
  | [] => false
  | [c0; x] => if is_m1 c0 then negb (c_open_mul x) && negb (starts_minus x) else negb (c_open_mul x)
  | _ :: r => forallb (fun c => negb (c_open_mul c)) r
  end.

Fixpoint c_faithful (e : expr) (t : bool) {struct e} : bool :=
  match e with
  | EInt _ | EPy _ | EVar _ | ELog _ => true
  | ESum _ cs =>
      (2 <=? Z.of_nat (List.length cs)) &&
      forallb (fun c => c_faithful c true) cs &&
      match cs with
      | c0 :: r =>
          (if term_neg c0 then match c0 with EProd _ [_; x] => negb (c_open_mul x) && negb (starts_minus x) | _ => false end else true) &&
          forallb (fun c => term_neg c || negb (open_sum c)) r
      | [] => false
      end
  | EProd par cs =>
      forallb (fun c => c_faithful c false) cs &&
      (if t && term_neg e then c_prod_ok (tl cs) else c_prod_ok cs)
  | EQuot _ n d => c_faithful n false && c_faithful d false && negb (is_mod d)
  | EPow _ b x => c_faithful b false && c_faithful x false
  | ECmp _ a b =>
      c_faithful a false && c_faithful b false &&
      negb (match a with ECmp _ _ _ => true | _ => false end) && negb (match b with ECmp _ _ _ => true | _ => false end)
  | EAnd cs | EOr cs => (2 <=? Z.of_nat (List.length cs)) && forallb (fun c => c_faithful c false) cs
  | ENot a => c_faithful a false
  | ECall _ args => forallb (fun a => c_faithful a false) args
  end.

(** * Semantic classes *)
(** integer-typed expressions: no double-valued function anywhere (and no power); array reads with integer-typed,
    subscript-free subscripts *)
Fixpoint c_int_class (arrs : list string) (e : expr) {struct e} : bool :=
  match e with
  | EInt _ | EPy _ | EVar _ => true
  | ESum _ cs => negb (match cs with [] => true | _ => false end) && forallb (c_int_class arrs) cs
  | EProd p cs =>
      negb (match cs with [] => true | _ => false end) && forallb (c_int_class arrs) cs &&
      negb (term_neg e && match cs with [_] => true | _ => false end)
  | EQuot _ n d => c_int_class arrs n && c_int_class arrs d
  | ECall f args =>
      forallb (c_int_class arrs) args &&
      (if is_arr arrs f then forallb (no_arr arrs) args
       else String.eqb f "mod" && Nat.eqb (List.length args) 2)
  | _ => false
  end.

Fixpoint c_class_b (arrs : list string) (e : expr) {struct e} : bool :=
  match e with
  | ELog _ => true
  | ECmp _ a b => c_int_class arrs a && c_int_class arrs b
  | EAnd cs | EOr cs => Nat.leb 2 (List.length cs) && forallb (c_class_b arrs) cs
  | ENot a => c_class_b arrs a
  | _ => false
  end.

(** the wider class: double-valued intrinsics (abs, 2-argument min / max, literal powers >= 0) outside of divisions,
    [mod] and subscripts *)
Definition dbl_intrinsic (f : string) (nargs : nat) : bool :=
  ((String.eqb f "min" || String.eqb f "max") && Nat.eqb nargs 2) || (String.eqb f "abs" && Nat.eqb nargs 1).

Fixpoint c_ext_class (arrs : list string) (e : expr) {struct e} : bool :=
  match e with
  | EInt _ | EPy _ | EVar _ => true
  | ESum _ cs => negb (match cs with [] => true | _ => false end) && forallb (c_ext_class arrs) cs
  | EProd p cs =>
      negb (match cs with [] => true | _ => false end) && forallb (c_ext_class arrs) cs &&
      negb (term_neg e && match cs with [_] => true | _ => false end)
  | EQuot _ n d => c_int_class arrs n && c_int_class arrs d
  | EPow _ b (EInt k) => c_ext_class arrs b && (0 <=? k)
  | ECall f args =>
      if is_arr arrs f || String.eqb f "mod" then c_int_class arrs e
      else dbl_intrinsic f (List.length args) && forallb (c_ext_class arrs) args
  | _ => false
  end.

Fixpoint c_ext_class_b (arrs : list string) (e : expr) {struct e} : bool :=
  match e with
  | ELog _ => true
  | ECmp _ a b => c_ext_class arrs a && c_ext_class arrs b
  | EAnd cs | EOr cs => Nat.leb 2 (List.length cs) && forallb (c_ext_class_b arrs) cs
  | ENot a => c_ext_class_b arrs a
  | _ => false
  end.

(** * Column-major offsets *)
Fixpoint flat (shape idx : list Z) : Z :=
  match idx, shape with
  | [], _ => 0
  | [d], _ => d
  | d :: r, n :: sh => d + n * flat sh r
  | d :: _, [] => d
  end.
Fixpoint size (shape : list Z) : Z := match shape with [] => 1 | n :: r => n * size r end.
Definition in_box0 (shape idx : list Z) : Prop := Forall2 (fun n d => 0 <= d < n) shape idx.
Fixpoint unflat (shape : list Z) (p : Z) : list Z :=
  match shape with
  | [] => []
  | [n] => [p]
  | n :: sh => (p mod n) :: unflat sh (p / n)
  end.

(** the C environment of a Fortran environment: by-value / local scalars, pointer targets, flat arrays *)
Definition c_env_rel (byref : list string) (decl : list (string * list Z)) (rho : env) (ce : cenv) : Prop :=
  (forall x, existsb (String.eqb x) byref = false -> cv_var ce x = Some (ev_var rho x)) /\
  (forall x, existsb (String.eqb x) byref = true -> cv_ptr ce x = Some (ev_var rho x)) /\
  (forall a idx v, is_arr (map fst decl) a = true -> ev_fun rho a idx = Some v ->
      exists sh, shape_of decl a = Some sh /\ Forall2 (fun n k => 1 <= k <= n) sh idx /\
                 cv_arr ce a (flat sh (map (fun k => k - 1) idx)) = Some v).

(** * Statements of the generated kernel (expressions as [E]: token lists on the implementation side) *)
Inductive cstmtG (E : Type) :=
| KAssign (lhs rhs : E)
| KFor (v start : E) (le : bool) (stop incr : E) (body : list (cstmtG E))
| KWhile (c : E) (body : list (cstmtG E))
| KIf (c : E) (tb eb : list (cstmtG E))
| KBad.
Arguments KAssign {E}. Arguments KFor {E}. Arguments KWhile {E}. Arguments KIf {E}. Arguments KBad {E}.

Definition closed_val (e : expr) : option Z := if closedZ e then evalZ env0 e else None.

Fixpoint cstmt_model (byref : list string) (decl : list (string * list Z)) (s : stmt) {struct s} : list (cstmtG cexpr) :=
  let M := c_model byref decl in
  match s with
  | SAssign x e => [KAssign (M (EVar x)) (M e)]
  | SStore a idx e => [KAssign (M (ECall a idx)) (M e)]
  | SDo v lo hi st body =>
      [KFor (M (EVar v)) (M lo)
            (match st with None => true | Some s => match closed_val s with Some k => 0 <? k | None => false end end)
            (M hi) (match st with None => CNum 1 | Some s => M s end)
            (flat_map (cstmt_model byref decl) body)]
  | SWhile c body => [KWhile (M c) (flat_map (cstmt_model byref decl) body)]
  | SIf c tb eb => [KIf (M c) (flat_map (cstmt_model byref decl) tb) (flat_map (cstmt_model byref decl) eb)]
  | SCall _ _ => [KBad]
  | SSkip _ => []
  end.

Fixpoint cstmt_faithful (decl : list (string * list Z)) (s : stmt) {struct s} : bool :=
  let F := fun e => c_faithful (c_pre decl e) false in
  match s with
  | SAssign _ e => F e
  | SStore a idx e => F (ECall a idx) && F e
  | SDo _ lo hi st body =>
      F lo && F hi && match st with None => true | Some s => F s && match closed_val s with Some k => negb (k =? 0) | None => false end end &&
      forallb (cstmt_faithful decl) body
  | SWhile c body => F c && forallb (cstmt_faithful decl) body
  | SIf c tb eb => F c && forallb (cstmt_faithful decl) tb && forallb (cstmt_faithful decl) eb
  | SCall _ _ => false
  | SSkip _ => true
  end.

(** * Boolean comparators *)
Definition cbin_eqb (a b : cbin) : bool :=
  match a, b with
  | OAdd, OAdd | OSub, OSub | OMul, OMul | ODiv, ODiv | OMod, OMod | OAnd, OAnd | OOr, OOr => true
  | _, _ => false
  end.

Fixpoint cexpr_eqb (x y : cexpr) {struct x} : bool :=
  let fix leqb (l1 l2 : list cexpr) : bool :=
    match l1, l2 with
    | [], [] => true
    | a :: r1, b :: r2 => cexpr_eqb a b && leqb r1 r2
    | _, _ => false
    end in
  match x, y with
  | CNum a, CNum b => a =? b
  | CVar a, CVar b => String.eqb a b
  | CDeref a, CDeref b => String.eqb a b
  | CBoolLit a, CBoolLit b => Bool.eqb a b
  | CBin o a b, CBin o' a' b' => cbin_eqb o o' && cexpr_eqb a a' && cexpr_eqb b b'
  | CNeg a, CNeg b => cexpr_eqb a b
  | CNot a, CNot b => cexpr_eqb a b
  | CCmp o a b, CCmp o' a' b' => cmpop_eqb o o' && cexpr_eqb a a' && cexpr_eqb b b'
  | CCall f l, CCall g l' => String.eqb f g && leqb l l'
  | CIdx f i, CIdx g j => String.eqb f g && cexpr_eqb i j
  | _, _ => false
  end.

(** the real text, read by the reference reader, is the model's expression *)
Definition toks_match (ts : list ctok) (e : cexpr) : bool :=
  match c_parse ts with Some p => cexpr_eqb p e | None => false end.

Fixpoint cstmt_match (x : cstmtG (list ctok)) (y : cstmtG cexpr) {struct x} : bool :=
  let fix lm (l1 : list (cstmtG (list ctok))) (l2 : list (cstmtG cexpr)) : bool :=
    match l1, l2 with
    | [], [] => true
    | a :: r1, b :: r2 => cstmt_match a b && lm r1 r2
    | _, _ => false
    end in
  match x, y with
  | KAssign l r, KAssign l' r' => toks_match l l' && toks_match r r'
  | KFor v a le b i body, KFor v' a' le' b' i' body' =>
      toks_match v v' && toks_match a a' && Bool.eqb le le' && toks_match b b' && toks_match i i' && lm body body'
  | KWhile c b, KWhile c' b' => toks_match c c' && lm b b'
  | KIf c t e, KIf c' t' e' => toks_match c c' && lm t t' && lm e e'
  | _, _ => false
  end.

Fixpoint cstmts_match (l1 : list (cstmtG (list ctok))) (l2 : list (cstmtG cexpr)) : bool :=
  match l1, l2 with
  | [], [] => true
  | a :: r1, b :: r2 => cstmt_match a b && cstmts_match r1 r2
  | _, _ => false
  end.

(** argument passing: scalars with intent(in) by value, every other scalar through a pointer, arrays as pointers *)
Inductive cpass := ByVal | ByPtr | ArrPtr.
Definition pass_of (k : argkind) : cpass := match k with AIn => ByVal | AArr => ArrPtr | _ => ByPtr end.
Definition cpass_eqb (a b : cpass) : bool :=
  match a, b with ByVal, ByVal | ByPtr, ByPtr | ArrPtr, ArrPtr => true | _, _ => false end.
Fixpoint sig_eqb (l1 l2 : list (string * cpass)) : bool :=
  match l1, l2 with
  | [], [] => true
  | (a, p) :: r1, (b, q) :: r2 => String.eqb a b && cpass_eqb p q && sig_eqb r1 r2
  | _, _ => false
  end.
Definition byref_of (args : list (string * argkind)) : list string :=
  map fst (filter (fun a => match snd a with AInOut | AOut => true | _ => false end) args).

(** the kernel that the reference reader reads from the real C text is the model's kernel *)
Definition chk_ckernel (args : list (string * argkind)) (decl : list (string * list Z)) (body : list stmt)
           (sig : list (string * cpass)) (impl : list (cstmtG (list ctok))) : bool :=
  sig_eqb (map (fun a => (fst a, pass_of (snd a))) args) sig &&
  cstmts_match impl (flat_map (cstmt_model (byref_of args) decl) body) &&
  forallb (cstmt_faithful decl) body.

(** C environments from association lists; observed value of an executed expression *)
Definition cenv_of (vals ptrs : list (string * Z)) (arrs : list (string * list (Z * Z))) : cenv :=
  {| cv_var := assoc_s vals; cv_ptr := assoc_s ptrs;
     cv_arr := fun a k => match assoc_s arrs a with
                          | Some l => (fix look (l : list (Z * Z)) : option Z :=
                                         match l with [] => None | (k', v) :: r => if k' =? k then Some v else look r end) l
                          | None => None end |}.

(** the int that the generated statement [res = e] stores = the model's value converted to int *)
Definition chk_ceval (byref : list string) (decl : list (string * list Z)) (e : expr) (ce : cenv) (o : option Z) : bool :=
  match evalC ce (c_model byref decl e), o with
  | Some v, Some z => c_to_int v =? z
  | None, None => true
  | _, _ => false
  end.

Definition chk_cclass (decl : list (string * list Z)) (e : expr) (cls fth : bool) : bool :=
  Bool.eqb (c_int_class (map fst decl) e || c_class_b (map fst decl) e) cls &&
  Bool.eqb (c_faithful (c_pre decl e) false) fth.

(** * Link to C06's model of CCodeMapper's text ([M_C06.print_c]) for call-free / array-free trees *)
Definition tok_c (t : M_C06.token) : ctok :=
  match t with
  | M_C06.TInt n => KInt n | M_C06.TVar s => KId s
  | M_C06.TTrue => KId "true" | M_C06.TFalse => KId "false"
  | M_C06.TLP => KLP | M_C06.TRP => KRP | M_C06.TComma => KComma
  | M_C06.TPlus => KPlus | M_C06.TMinus => KMinus | M_C06.TStar => KStar | M_C06.TSlash => KSlash
  | M_C06.TRel op => KRel op | M_C06.TNot => KNot | M_C06.TAnd => KAnd | M_C06.TOr => KOr
  | M_C06.TPow | M_C06.TErr => KOther
  end.

Definition ctok_eqb (a b : ctok) : bool :=
  match a, b with
  | KInt x, KInt y => x =? y
  | KId x, KId y => String.eqb x y
  | KLP, KLP | KRP, KRP | KLB, KLB | KRB, KRB | KComma, KComma | KPlus, KPlus | KMinus, KMinus | KStar, KStar
  | KSlash, KSlash | KPct, KPct | KNot, KNot | KAnd, KAnd | KOr, KOr | KDec, KDec | KOther, KOther => true
  | KRel x, KRel y => cmpop_eqb x y
  | _, _ => false
  end.
Fixpoint ctoks_eqb (a b : list ctok) : bool :=
  match a, b with
  | [], [] => true
  | x :: r, y :: q => ctok_eqb x y && ctoks_eqb r q
  | _, _ => false
  end.

(** for a tree without array references and mod: the real tokens are C06's [print_c] of the transformed tree, and the
    reference reader reads them as the structural model *)
Definition chk_printc (decl : list (string * list Z)) (e : expr) (real : list ctok) : bool :=
  ctoks_eqb (map tok_c (M_C06.print_c (c_pre decl e) 0)) real &&
  toks_match real (c_model [] decl e).

(** * The C environment of a Fortran environment *)
Definition in_range (sh : list Z) (p : Z) : bool := (0 <=? p) && (p <? size sh).
Definition shift_cenv (byref : list string) (decl : list (string * list Z)) (rho : env) : cenv :=
  {| cv_var := fun x => if existsb (String.eqb x) byref then None else Some (ev_var rho x);
     cv_ptr := fun x => if existsb (String.eqb x) byref then Some (ev_var rho x) else None;
     cv_arr := fun a p => match shape_of decl a with
                          | Some sh => if in_range sh p then ev_fun rho a (map (Z.add 1) (unflat sh p)) else None
                          | None => None
                          end |}.
Definition box1 (sh idx : list Z) : Prop := Forall2 (fun n k => 1 <= k <= n) sh idx.
Definition crho_ok (decl : list (string * list Z)) (rho : env) : Prop :=
  forall a sh idx v, shape_of decl a = Some sh -> ev_fun rho a idx = Some v -> box1 sh idx.
Definition shapes_pos (decl : list (string * list Z)) : Prop :=
  forall a sh, shape_of decl a = Some sh -> Forall (fun n => 0 < n) sh.

(** the harness' python port of the wider class (oracle class) is the model's *)
Definition chk_cext (decl : list (string * list Z)) (e : expr) (ext : bool) : bool :=
  Bool.eqb (c_ext_class (map fst decl) e || c_ext_class_b (map fst decl) e) ext.
