(** C20 — recorded source locations match the original text.  Definitions only.
    Models loki/frontend/source.py:
      - Source.find / clone_with_string / clone_with_span (span arithmetic on the raw string),
      - join_source_list,
      - FortranReader: the sanitised view of a source text (fparser's free-form line reader is modelled by
        [scan]/[fp_read] on a class of texts; everything FortranReader itself computes is modelled on top of
        an arbitrary list of reader items): _sanitize_raw_source, sanitized_spans/string,
        get_line_indices_from_span, to_source, source_from_head/tail/sanitized_span/current_line,
        reader_from_sanitized_span.
    Text is [string] (ASCII); offsets are [nat]; line numbers are [Z]. *)
From Coq Require Import ZArith List Bool String Ascii Sorting.Sorted.
From LV Require Import Base.Strings.
Import ListNotations.
Open Scope Z_scope.

(** * 1. strings *)
Definition nl : ascii := "010"%char.
Definition is_nl (c : ascii) : bool := Ascii.eqb c nl.

(** str.count('\n') *)
Fixpoint count_nl (s : string) : Z :=
  match s with
  | EmptyString => 0
  | String c r => (if is_nl c then 1 else 0) + count_nl r
  end.

Fixpoint stake (n : nat) (s : string) : string :=
  match n, s with
  | O, _ => EmptyString
  | S n', String c r => String c (stake n' r)
  | S _, EmptyString => EmptyString
  end.
Fixpoint sskip (n : nat) (s : string) : string :=
  match n, s with
  | O, _ => s
  | S n', String c r => sskip n' r
  | S _, EmptyString => EmptyString
  end.
(** s[a:b] for 0 <= a, 0 <= b (Python clamps at the end; b < a gives '') *)
Definition slice (a b : nat) (s : string) : string := stake (b - a) (sskip a s).
(** s[a:b] where b may be None *)
Definition py_slice (a : nat) (ob : option nat) (s : string) : string :=
  match ob with Some b => slice a b s | None => sskip a s end.

Definition slen (s : string) : nat := String.length s.
Definition sempty (s : string) : bool := match s with EmptyString => true | _ => false end.

(** '\n'.join(lines) *)
Fixpoint join_nl (ls : list string) : string :=
  match ls with
  | [] => EmptyString
  | l :: r => match r with [] => l | _ => l ++ String nl (join_nl r) end
  end.

(** text.split('\n') *)
Fixpoint split_nl (s : string) : list string :=
  match s with
  | EmptyString => [EmptyString]
  | String c r =>
      if is_nl c then EmptyString :: split_nl r
      else match split_nl r with
           | l :: t => String c l :: t
           | [] => [String c EmptyString]
           end
  end.
(** str.splitlines() on texts whose only line break character is '\n' and that do not end in '\n' *)
Definition splitlines (s : string) : list string := if sempty s then [] else split_nl s.

(** Python's ASCII white space (str.isspace): \t \n \v \f \r, 0x1c-0x1f, blank *)
Definition is_ws (c : ascii) : bool :=
  let n := nat_of_ascii c in
  ((9 <=? n) && (n <=? 13))%nat || ((28 <=? n) && (n <=? 32))%nat.

Fixpoint lstrip (s : string) : string :=
  match s with
  | EmptyString => EmptyString
  | String c r => if is_ws c then lstrip r else s
  end.
Fixpoint rstrip (s : string) : string :=
  match s with
  | EmptyString => EmptyString
  | String c r => let r' := rstrip r in
                  if is_ws c && sempty r' then EmptyString else String c r'
  end.
Definition strip (s : string) : string := lstrip (rstrip s).

(** str.split() *)
Fixpoint split_ws (s : string) : list string :=
  match s with
  | EmptyString => []
  | String c r =>
      if is_ws c then split_ws r
      else match r with
           | EmptyString => [String c EmptyString]
           | String c2 _ =>
               if is_ws c2 then String c EmptyString :: split_ws r
               else match split_ws r with
                    | t :: ts => String c t :: ts
                    | [] => [String c EmptyString]
                    end
           end
  end.

Fixpoint prefixb (p s : string) : bool :=
  match p, s with
  | EmptyString, _ => true
  | String a p', String b s' => Ascii.eqb a b && prefixb p' s'
  | String _ _, EmptyString => false
  end.

(** str.find(p): first index of an occurrence of p in s *)
Fixpoint find_sub (p s : string) : option nat :=
  if prefixb p s then Some O
  else match s with
       | EmptyString => None
       | String _ r => match find_sub p r with Some i => Some (S i) | None => None end
       end.

(** * 2. Source *)
Record source := { s_l0 : Z; s_l1 : option Z; s_str : string; s_file : option string }.

Definition fold_case (ic : bool) (s : string) : string := if ic then lower s else s.

Inductive find_res := FNone | FSpan (a b : nat) | FIndexError.

(** Source.find *)
Definition find (hay needle : string) (ic isp : bool) : find_res :=
  if sempty hay then FNone else
  let n := fold_case ic needle in
  let h := fold_case ic hay in
  match find_sub n h with
  | Some i => FSpan i (i + slen n)
  | None =>
      if isp then
        match split_ws n with
        | [] => FIndexError                      (* strings[0] on an empty list *)
        | t0 :: _ =>
            match find_sub t0 h with
            | None => FNone
            | Some i0 =>
                if forallb (fun t => match find_sub t h with Some _ => true | None => false end) (split_ws n)
                then let tl := List.last (split_ws n) t0 in
                     match find_sub tl h with
                     | Some il => FSpan i0 (il + slen tl)
                     | None => FNone
                     end
                else FNone
            end
        end
      else FNone
  end.

Definition mk_span_source (src : source) (a : nat) (str : string) : source :=
  let lstart := s_l0 src + count_nl (stake a (s_str src)) in
  {| s_l0 := lstart; s_l1 := Some (lstart + count_nl str); s_str := str; s_file := s_file src |}.

(** Source.clone_with_span(span) for span = (a, b) or (a, None), a, b >= 0 *)
Definition clone_with_span (src : source) (a : nat) (ob : option nat) : source :=
  mk_span_source src a (py_slice a ob (s_str src)).

(** Source.clone_with_string; None = the IndexError raised inside find *)
Definition clone_with_string (src : source) (needle : string) (ic isp : bool) : option source :=
  match find (s_str src) needle ic isp with
  | FIndexError => None
  | FSpan a b => Some (mk_span_source src a (slice a b (s_str src)))
  | FNone => Some {| s_l0 := s_l0 src; s_l1 := s_l1 src; s_str := needle; s_file := s_file src |}
  end.

(** join_source_list *)
Definition truthy (o : option Z) : bool := match o with Some e => negb (e =? 0) | None => false end.
Definition oval (o : option Z) (d : Z) : Z := match o with Some e => e | None => d end.
Fixpoint newlines (n : nat) : string := match n with O => EmptyString | S k => String nl (newlines k) end.

Fixpoint join_rest (l0 l1 : Z) (str : string) (rest : list source) : Z * Z * string :=
  match rest with
  | [] => (l0, l1, str)
  | s :: r =>
      let d := s_l0 s - l1 in
      let d' := if d <? 0 then 0 else d in
      let str' := (str ++ newlines (Z.to_nat d') ++ s_str s)%string in
      let l1' := if truthy (s_l1 s) then oval (s_l1 s) 0 else l1 + d' + count_nl (s_str s) in
      join_rest l0 l1' str' r
  end.

Definition join_source_list (l : list source) : option source :=
  match l with
  | [] => None
  | s :: r =>
      let l1 := if truthy (s_l1 s) then oval (s_l1 s) 0 else s_l0 s in
      match join_rest (s_l0 s) l1 (s_str s) r with
      | (a, b, str) => Some {| s_l0 := a; s_l1 := Some b; s_str := str; s_file := s_file s |}
      end
  end.

(** the Source constructor asserts end >= start: join_source_list as Python sees it (None = AssertionError) *)
Inductive jres := JNone | JSrc (s : source) | JAssertErr.
Definition join_source_list_py (l : list source) : jres :=
  match join_source_list l with
  | None => JNone
  | Some r => if oval (s_l1 r) (s_l0 r) <? s_l0 r then JAssertErr else JSrc r
  end.

(** * 3. fparser's free-form line reader (class: no tabs, labels, construct names, '\r', cpp continuation,
      no line starting with ';', no preprocessor line inside a continued statement) *)
Inductive rkind := KLine | KComment | KCpp.
Record ritem := { r_kind : rkind; r_text : string; r_s : Z; r_e : Z; r_inner : bool }.
(** [r_inner]: comment that sits on or between the physical lines of a statement (model-internal flag, used
    for class predicates only) *)

Inductive qst := QN | QS | QD.
Definition qstep (q : qst) (c : ascii) : qst :=
  match q with
  | QN => if Ascii.eqb c "'"%char then QS else if Ascii.eqb c """"%char then QD else QN
  | QS => if Ascii.eqb c "'"%char then QN else QS
  | QD => if Ascii.eqb c """"%char then QN else QD
  end.
Definition q_is_none (q : qst) : bool := match q with QN => true | _ => false end.

(** (code before the first '!' outside quotes, the comment from that '!' on, quote state at the end) *)
Fixpoint split_cmt (q : qst) (s : string) : string * option string * qst :=
  match s with
  | EmptyString => (EmptyString, None, q)
  | String c r =>
      if q_is_none q && Ascii.eqb c "!"%char then (EmptyString, Some s, QN)
      else match split_cmt (qstep q c) r with
           | (a, b, q') => (String c a, b, q')
           end
  end.

Definition first_nonws (s : string) : option ascii :=
  match lstrip s with String c _ => Some c | EmptyString => None end.
Fixpoint ends_amp (s : string) : bool :=
  match s with
  | EmptyString => false
  | String c r => match r with EmptyString => Ascii.eqb c "&"%char | _ => ends_amp r end
  end.
Fixpoint drop_last (s : string) : string :=
  match s with
  | EmptyString => EmptyString
  | String c r => match r with EmptyString => EmptyString | _ => String c (drop_last r) end
  end.

(** split at ';' outside quotes *)
Fixpoint split_semi (q : qst) (s : string) : list string :=
  match s with
  | EmptyString => [EmptyString]
  | String c r =>
      let ps := split_semi (qstep q c) r in
      if q_is_none q && Ascii.eqb c ";"%char then EmptyString :: ps
      else match ps with
           | p :: t => String c p :: t
           | [] => [String c EmptyString]
           end
  end.

Fixpoint sconcat (l : list string) : string :=
  match l with [] => EmptyString | a :: r => (a ++ sconcat r)%string end.

Record group := { g_s : Z; g_e : Z; g_parts : list (Z * string); g_cms : list ritem }.
Inductive ev := EvI (i : ritem) | EvG (g : group).
Record cstate := { cs_s : Z; cs_e : Z; cs_parts : list (Z * string); cs_q : qst; cs_cms : list ritem }.

Definition mk_cmt (t : string) (k : Z) (inner : bool) : ritem :=
  {| r_kind := KComment; r_text := t; r_s := k; r_e := k; r_inner := inner |}.
Definition inline_cmt (cm : option string) (k : Z) : list ritem :=
  match cm with Some t => [mk_cmt (strip t) k true] | None => [] end.

(** one physical line, no statement open *)
Definition scan_fresh (k : Z) (l : string) : list ev * option cstate :=
  match first_nonws l with
  | None => ([EvI (mk_cmt EmptyString k false)], None)
  | Some c =>
      if Ascii.eqb c "!"%char then ([EvI (mk_cmt (strip l) k false)], None)
      else if Ascii.eqb c "#"%char then
        ([EvI {| r_kind := KCpp; r_text := strip l; r_s := k; r_e := k; r_inner := false |}], None)
      else match split_cmt QN l with
           | (code, cm, q) =>
               let code' := rstrip code in
               if ends_amp code'
               then ([], Some {| cs_s := k; cs_e := k; cs_parts := [(k, drop_last code')]; cs_q := q;
                                 cs_cms := inline_cmt cm k |})
               else ([EvG {| g_s := k; g_e := k; g_parts := [(k, code')]; g_cms := inline_cmt cm k |}], None)
           end
  end.

(** the part of a continuation line that is kept: text after a leading '&'.  fparser: k = index of the first '&';
    it is a leading one when only blanks precede it - or when k = 1 (a quirk of the reader: the character in
    column 0 is then dropped as well) *)
Definition lead_amp_cut (s : string) : string :=
  match find_sub "&" s with
  | None => s
  | Some k => if Nat.eqb k 1 || sempty (lstrip (stake k s)) then sskip (S k) s else s
  end.

(** one physical line while a continued statement is open *)
Definition scan_cont (k : Z) (c : cstate) (l : string) : list ev * option cstate :=
  match first_nonws l with
  | None => ([], Some c)
  | Some ch =>
      if Ascii.eqb ch "!"%char
      then ([], Some {| cs_s := cs_s c; cs_e := cs_e c; cs_parts := cs_parts c; cs_q := cs_q c;
                        cs_cms := cs_cms c ++ [mk_cmt (strip l) k true] |})
      else
        match split_cmt (cs_q c) (rstrip l) with
        | (code, cm, q) =>
            let code' := rstrip code in
            if ends_amp code'
            then ([], Some {| cs_s := cs_s c; cs_e := k; cs_parts := cs_parts c ++ [(k, lead_amp_cut (drop_last code'))];
                              cs_q := q; cs_cms := cs_cms c ++ inline_cmt cm k |})
            else ([EvG {| g_s := cs_s c; g_e := k; g_parts := cs_parts c ++ [(k, lead_amp_cut code)];
                          g_cms := cs_cms c ++ inline_cmt cm k |}], None)
        end
  end.

Definition close_group (c : cstate) : group :=
  {| g_s := cs_s c; g_e := cs_e c; g_parts := cs_parts c; g_cms := cs_cms c |}.

Fixpoint scan (k : Z) (st : option cstate) (ls : list string) : list ev :=
  match ls with
  | [] => match st with Some c => [EvG (close_group c)] | None => [] end
  | l :: r =>
      match (match st with None => scan_fresh k l | Some c => scan_cont k c l end) with
      | (evs, st') => evs ++ scan (k + 1) st' r
      end
  end.

Definition g_content (g : group) : string := strip (sconcat (map snd (g_parts g))).

(** str.lower() outside of quoted strings (fparser's splitquote(line, lower=True)) *)
Fixpoint lower_outq (q : qst) (s : string) : string :=
  match s with
  | EmptyString => EmptyString
  | String c r => String (if q_is_none q then lower_ascii c else c) (lower_outq (qstep q c) r)
  end.
Fixpoint has_semi (q : qst) (s : string) : bool :=
  match s with
  | EmptyString => false
  | String c r => (q_is_none q && Ascii.eqb c ";"%char) || has_semi (qstep q c) r
  end.
(** a statement list is split at ';' outside quotes; fparser then delivers the statements lower-cased outside
    quotes (and trims blanks inside parentheses - not modelled, class: no parentheses in ';' lists) *)
Definition pieces (content : string) : list string :=
  if has_semi QN content
  then filter (fun p => negb (sempty p)) (map strip (split_semi QN (lower_outq QN content)))
  else if sempty content then [] else [content].
Definition ev_items (e : ev) : list ritem :=
  match e with
  | EvI i => [i]
  | EvG g => map (fun p => {| r_kind := KLine; r_text := p; r_s := g_s g; r_e := g_e g; r_inner := false |})
                 (pieces (g_content g)) ++ g_cms g
  end.

Definition fp_read (ls : list string) : list ritem := flat_map ev_items (scan 1 None ls).

(** * 4. FortranReader *)
Definition is_pragma (x : ritem) : bool := prefixb "!$" (r_text x).

(** is_not_comment(line, prev) *)
Definition keep (prev_end : Z) (x : ritem) : bool :=
  match r_kind x with
  | KComment => (prev_end <? r_s x) && is_pragma x
  | _ => true
  end.
Fixpoint sanitize_from (prev_end : Z) (l : list ritem) : list ritem :=
  match l with
  | [] => []
  | x :: r => (if keep prev_end x then [x] else []) ++ sanitize_from (r_e x) r
  end.
Definition sanitize (l : list ritem) : list ritem := sanitize_from 0 l.

Definition zlen {A} (l : list A) : Z := Z.of_nat (List.length l).

Fixpoint accum (acc : Z) (l : list ritem) : list Z :=
  match l with
  | [] => []
  | x :: r => let a := acc + Z.of_nat (slen (r_text x)) + 1 in a :: accum a r
  end.

Record reader := { rd_off : Z; rd_src : list string; rd_san : list ritem; rd_spans : list Z; rd_str : string }.

Definition mk_reader (src : list string) (items : list ritem) : reader :=
  let san := sanitize items in
  {| rd_off := 0; rd_src := src; rd_san := san; rd_spans := 0 :: accum 0 san;
     rd_str := join_nl (map r_text san) |}.

(** FortranReader(text): raw_source.strip(), splitlines(), fparser's reader *)
Definition text_lines (t : string) : list string := splitlines (strip t).
Definition reader_of_text (t : string) : reader := mk_reader (text_lines t) (fp_read (text_lines t)).

Inductive res (A : Type) := Ok (a : A) | IdxErr | AssertErr.
Arguments Ok {A} a.
Arguments IdxErr {A}.
Arguments AssertErr {A}.
Definition bind {A B} (r : res A) (f : A -> res B) : res B :=
  match r with Ok a => f a | IdxErr => IdxErr | AssertErr => AssertErr end.

(** l[i] with Python's negative indices *)
Definition py_nth {A} (l : list A) (i : Z) : res A :=
  let n := zlen l in
  let j := if i <? 0 then i + n else i in
  if (j <? 0) || (n <=? j) then IdxErr
  else match nth_error l (Z.to_nat j) with Some x => Ok x | None => IdxErr end.
(** l[a:b] with Python's clamping and negative indices *)
Definition clampi (n i : Z) : Z := if i <? 0 then Z.max 0 (i + n) else Z.min i n.
Definition py_lslice {A} (l : list A) (a b : Z) : list A :=
  let n := zlen l in
  firstn (Z.to_nat (clampi n b - clampi n a)) (skipn (Z.to_nat (clampi n a)) l).

(** bisect_left(l, x, lo) on a sorted list: first index i >= lo with l[i] >= x, else len(l) *)
Fixpoint bisect_from (l : list Z) (x : Z) (i lo : Z) : Z :=
  match l with
  | [] => i
  | y :: r => if (lo <=? i) && (x <=? y) then i else bisect_from r x (i + 1) lo
  end.
Definition bisect_left (l : list Z) (x lo : Z) : Z := bisect_from l x 0 lo.

Definition line_index (rd : reader) (ln : Z) : Z := ln - rd_off rd - 1.

(** get_line_indices_from_span *)
Definition get_indices (rd : reader) (a : Z) (ob : option Z) (pad : bool) : res (Z * Z * Z * Z) :=
  let san := rd_san rd in
  let n := zlen san in
  let ss := bisect_left (rd_spans rd) a 0 in
  let se := match ob with None => n | Some b => Z.min n (bisect_left (rd_spans rd) b ss) end in
  if pad then
    bind (if ss =? 0 then Ok 0
          else if n <=? ss then bind (py_nth san (-1)) (fun x => Ok (line_index rd (r_e x + 1)))
          else bind (py_nth san ss) (fun x => bind (py_nth san (ss - 1)) (fun y =>
                 if 1 <? r_s x - r_e y then Ok (line_index rd (r_e y + 1)) else Ok (line_index rd (r_s x)))))
      (fun s0 =>
    bind (if se =? n then Ok (zlen (rd_src rd))
          else bind (py_nth san se) (fun x => Ok (line_index rd (r_s x))))
      (fun e0 => Ok (ss, se, s0, e0)))
  else if n <=? ss then
    bind (py_nth san (-1)) (fun x => let s0 := line_index rd (r_e x + 1) in Ok (ss, se, s0, s0))
  else
    bind (py_nth san ss) (fun x => bind (py_nth san (se - 1)) (fun y =>
      Ok (ss, se, line_index rd (r_s x), line_index rd (r_e y + 1)))).

(** Source(lines=(a, b), string=str): the constructor asserts b >= a *)
Definition mk_source (a b : Z) (str : string) : res source :=
  if b <? a then AssertErr else Ok {| s_l0 := a; s_l1 := Some b; s_str := str; s_file := None |}.

Definition source_from_span (rd : reader) (a : Z) (ob : option Z) (pad : bool) : res (option source) :=
  bind (get_indices rd a ob pad) (fun r =>
    match r with
    | (_, _, s0, e0) =>
        let str := join_nl (py_lslice (rd_src rd) s0 e0) in
        if sempty str then Ok None
        else bind (mk_source (rd_off rd + s0 + 1) (rd_off rd + e0) str) (fun s => Ok (Some s))
    end).

Definition to_source (rd : reader) (pad : bool) : res source :=
  match rd_src rd with
  | [] => mk_source (rd_off rd + 1) (rd_off rd + 1) EmptyString
  | _ =>
      if pad then mk_source (rd_off rd + 1) (rd_off rd + zlen (rd_src rd)) (join_nl (rd_src rd))
      else bind (py_nth (rd_san rd) 0) (fun x => bind (py_nth (rd_san rd) (-1)) (fun y =>
             let l0 := r_s x in let l1 := r_e y in
             mk_source l0 l1 (join_nl (py_lslice (rd_src rd) (l0 - rd_off rd - 1) (l1 - rd_off rd)))))
  end.

Definition source_from_head (rd : reader) : res (option source) :=
  match rd_src rd with
  | [] => Ok None
  | _ =>
      match rd_san rd with
      | [] => bind (mk_source (rd_off rd + 1) (rd_off rd + zlen (rd_src rd)) (join_nl (rd_src rd)))
                (fun s => Ok (Some s))
      | x :: _ =>
          let d := r_s x - rd_off rd in
          if d =? 1 then Ok None
          else if d <=? 0 then AssertErr
          else bind (mk_source (rd_off rd + 1) (r_s x - 1) (join_nl (py_lslice (rd_src rd) 0 (d - 1))))
                 (fun s => Ok (Some s))
      end
  end.

Definition source_from_tail (rd : reader) : res (option source) :=
  match rd_san rd with
  | [] => Ok None
  | _ =>
      bind (py_nth (rd_san rd) (-1)) (fun y =>
        let d := zlen (rd_src rd) + rd_off rd - r_e y in
        if d =? 0 then Ok None
        else if d <? 0 then AssertErr
        else let start := r_e y + 1 in
             bind (mk_source start (start + d - 1)
                     (join_nl (py_lslice (rd_src rd) (line_index rd start) (zlen (rd_src rd)))))
               (fun s => Ok (Some s)))
  end.

(** source_from_current_line for the k-th sanitised line (0-based) *)
Definition source_from_line (rd : reader) (k : Z) : res source :=
  bind (py_nth (rd_san rd) k) (fun x =>
    mk_source (r_s x) (r_e x)
      (join_nl (py_lslice (rd_src rd) (line_index rd (r_s x)) (line_index rd (r_e x) + 1)))).

(** string[a:b] with Z indices (both non-negative here) *)
Definition zslice (s : string) (a : Z) (ob : option Z) : string :=
  py_slice (Z.to_nat a) (option_map Z.to_nat ob) s.

Definition reader_from_span (rd : reader) (a : Z) (ob : option Z) (pad : bool) : res (option reader) :=
  bind (get_indices rd a ob pad) (fun r =>
    match r with
    | (ss, se, s0, e0) =>
        if zlen (rd_san rd) <=? ss then Ok None
        else bind (py_nth (rd_spans rd) ss) (fun off =>
          bind (if se + 1 <? zlen (rd_spans rd)
                then bind (py_nth (rd_spans rd) (se + 1)) (fun hi => Ok (Some hi))
                else Ok None) (fun ohi =>
          Ok (Some {| rd_off := rd_off rd + s0;
                      rd_src := py_lslice (rd_src rd) s0 e0;
                      rd_san := py_lslice (rd_san rd) ss se;
                      rd_spans := map (fun x => x - off) (py_lslice (rd_spans rd) ss (se + 1));
                      rd_str := zslice (rd_str rd) off ohi |})))
    end).

(** * 5. class predicates (decidable) *)
(** no '!$' comment on or between the physical lines of a statement *)
Definition no_inner_pragma (items : list ritem) : bool :=
  forallb (fun x => negb (r_inner x && is_pragma x)) items.

(** reader items as fparser delivers them: spans well formed and in reading order *)
Definition span_ok (n : Z) (x : ritem) : bool := (1 <=? r_s x) && (r_s x <=? r_e x) && (r_e x <=? n).
Definition same_span (x y : ritem) : bool := (r_s x =? r_s y) && (r_e x =? r_e y).
Definition after (x y : ritem) : bool := (r_e x <? r_s y) || same_span x y.
Fixpoint chain (l : list ritem) : bool :=
  match l with
  | [] => true
  | x :: r => match r with [] => true | y :: _ => after x y && chain r end
  end.

(** a source whose line span and string agree: the string has exactly l1 - l0 line breaks *)
Definition consistent (s : source) : bool :=
  match s_l1 s with Some e => e =? s_l0 s + count_nl (s_str s) | None => false end.
Fixpoint ordered_sources (prev_end : Z) (l : list source) : bool :=
  match l with
  | [] => true
  | s :: r => (prev_end <=? s_l0 s) && consistent s && truthy (s_l1 s) && ordered_sources (oval (s_l1 s) 0) r
  end.

(** * 5b. specification vocabulary (used in the theorem statements) *)
(** a line of text: no line break inside *)
Fixpoint no_nl (s : string) : bool :=
  match s with EmptyString => true | String c r => negb (is_nl c) && no_nl r end.
(** offset of the first character of line i in '\n'.join(ls) *)
Fixpoint line_start (ls : list string) (i : nat) : nat :=
  match i, ls with
  | O, _ => O
  | S i', l :: r => (slen l + 1 + line_start r i')%nat
  | S _, [] => O
  end.
Definition nth_line (ls : list string) (i : nat) : string := nth i ls EmptyString.
(** the text from column ca of line i to column cb of line j, expressed with the lines themselves *)
Definition text_between (ls : list string) (i ca j cb : nat) : string :=
  if Nat.eqb i j then slice ca cb (nth_line ls i)
  else join_nl (sskip ca (nth_line ls i) :: firstn (j - i - 1) (skipn (S i) ls) ++ [stake cb (nth_line ls j)]).

(** str without white space *)
Fixpoint remove_ws (s : string) : string :=
  match s with
  | EmptyString => EmptyString
  | String c r => if is_ws c then remove_ws r else String c (remove_ws r)
  end.

(** offset at which part k of a joined source list starts in the joined string *)
Fixpoint join_offset (prev_end : Z) (l : list source) (k : nat) : nat :=
  match l with
  | [] => O
  | s :: r =>
      let gap := Z.to_nat (s_l0 s - prev_end) in
      match k with
      | O => gap
      | S k' => (gap + slen (s_str s) + join_offset (oval (s_l1 s) 0) r k')%nat
      end
  end.

(** reading order of reader items, as propositions *)
Definition after_p (x y : ritem) : Prop := r_e x < r_s y \/ (r_s x = r_s y /\ r_e x = r_e y).
Definition span_ok_p (n : Z) (x : ritem) : Prop := 1 <= r_s x /\ r_s x <= r_e x /\ r_e x <= n.

(** every comment flagged as lying inside a statement is a plain (non-pragma) comment *)
Definition inner_ok (items : list ritem) : bool :=
  forallb (fun x => negb (r_inner x) || (match r_kind x with KComment => true | _ => false end && negb (is_pragma x))) items.

(** a physical line that holds (part of) a statement: not blank, not a comment line *)
Definition code_line (l : string) : bool :=
  match first_nonws l with
  | None => false
  | Some c => negb (Ascii.eqb c "!"%char)
  end.
Definition skipped_line (l : string) : bool :=
  match first_nonws l with
  | None => true
  | Some c => Ascii.eqb c "!"%char
  end.
Definition groups_of (evs : list ev) : list group :=
  flat_map (fun e => match e with EvG g => [g] | EvI _ => [] end) evs.

(** physical line number k (1-based) of a text *)
Definition line_at (all : list string) (k : Z) : option string :=
  if k <? 1 then None else nth_error all (Z.to_nat (k - 1)).
(** p is a contiguous piece of l *)
Definition is_sub (p l : string) : Prop := exists a n, p = stake n (sskip a l).
(** a part (line number, text) of a statement: the text is a piece of that physical line, which holds code *)
Definition part_ok (all : list string) (kp : Z * string) : Prop :=
  exists l, line_at all (fst kp) = Some l /\ code_line l = true /\ is_sub (snd kp) l.
(** a logical line (statement group) read from the text [all]: its content is made of pieces of physical lines
    with strictly increasing numbers, the first being g_s and the last g_e; every other line in between is blank
    or a comment line *)
Definition group_exact (all : list string) (g : group) : Prop :=
  g_parts g <> [] /\
  Forall (part_ok all) (g_parts g) /\
  StronglySorted Z.lt (map fst (g_parts g)) /\
  hd_error (map fst (g_parts g)) = Some (g_s g) /\
  List.last (map fst (g_parts g)) 0 = g_e g /\
  (forall k, g_s g <= k <= g_e g -> ~ In k (map fst (g_parts g)) ->
     exists l, line_at all k = Some l /\ skipped_line l = true).

(** * 6. comparators used by the correspondence check *)
Definition oz_eqb (a b : option Z) : bool :=
  match a, b with Some x, Some y => x =? y | None, None => true | _, _ => false end.
Definition ostr_eqb (a b : option string) : bool :=
  match a, b with Some x, Some y => String.eqb x y | None, None => true | _, _ => false end.
Definition source_eqb (a b : source) : bool :=
  (s_l0 a =? s_l0 b) && oz_eqb (s_l1 a) (s_l1 b) && String.eqb (s_str a) (s_str b) && ostr_eqb (s_file a) (s_file b).
Definition osource_eqb (a b : option source) : bool :=
  match a, b with Some x, Some y => source_eqb x y | None, None => true | _, _ => false end.

Definition mk (l0 : Z) (l1 : option Z) (str : string) (f : option string) : source :=
  {| s_l0 := l0; s_l1 := l1; s_str := str; s_file := f |}.

Definition chk_span (src : source) (a : nat) (ob : option nat) (exp : source) : bool :=
  source_eqb (clone_with_span src a ob) exp.

Definition find_res_eqb (a b : find_res) : bool :=
  match a, b with
  | FNone, FNone => true
  | FSpan x y, FSpan x' y' => Nat.eqb x x' && Nat.eqb y y'
  | FIndexError, FIndexError => true
  | _, _ => false
  end.
Definition chk_find (hay needle : string) (ic isp : bool) (exp : find_res) : bool :=
  find_res_eqb (find hay needle ic isp) exp.
Definition chk_cws (src : source) (needle : string) (ic isp : bool) (exp : option source) : bool :=
  osource_eqb (clone_with_string src needle ic isp) exp.
Definition chk_join (l : list source) (exp : jres) : bool :=
  match join_source_list_py l, exp with
  | JNone, JNone => true
  | JSrc a, JSrc b => source_eqb a b
  | JAssertErr, JAssertErr => true
  | _, _ => false
  end.

(** expected strings are given either literally or as a slice of the (stripped) text's lines *)
Inductive sexp := SLines (i j : Z) | SLit (s : string).
Definition sexp_str (src : list string) (e : sexp) : string :=
  match e with SLines i j => join_nl (py_lslice src i j) | SLit s => s end.
(** expected result of a Source-returning reader method *)
Inductive rexp := RNone | RSrc (l0 l1 : Z) (e : sexp) | RIdxErr | RAssertErr.

Definition src_matches (lines : list string) (s : source) (l0 l1 : Z) (e : sexp) : bool :=
  (s_l0 s =? l0) && oz_eqb (s_l1 s) (Some l1) && String.eqb (s_str s) (sexp_str lines e)
  && match s_file s with None => true | Some _ => false end.
Definition chk_osrc (lines : list string) (r : res (option source)) (exp : rexp) : bool :=
  match r, exp with
  | Ok None, RNone => true
  | Ok (Some s), RSrc l0 l1 e => src_matches lines s l0 l1 e
  | IdxErr, RIdxErr => true
  | AssertErr, RAssertErr => true
  | _, _ => false
  end.
Definition chk_src (lines : list string) (r : res source) (exp : rexp) : bool :=
  match r, exp with
  | Ok s, RSrc l0 l1 e => src_matches lines s l0 l1 e
  | IdxErr, RIdxErr => true
  | AssertErr, RAssertErr => true
  | _, _ => false
  end.

(** items as (kind, text, start, end) *)
Definition item4 := (rkind * string * Z * Z)%type.
Definition rkind_eqb (a b : rkind) : bool :=
  match a, b with KLine, KLine => true | KComment, KComment => true | KCpp, KCpp => true | _, _ => false end.
Definition item_matches (x : ritem) (e : item4) : bool :=
  match e with (k, t, s, e') => rkind_eqb (r_kind x) k && String.eqb (r_text x) t && (r_s x =? s) && (r_e x =? e') end.
Fixpoint all2 {A B} (f : A -> B -> bool) (l : list A) (m : list B) : bool :=
  match l, m with
  | [], [] => true
  | a :: l', b :: m' => f a b && all2 f l' m'
  | _, _ => false
  end.
Definition items_of (l : list item4) : list ritem :=
  map (fun e => match e with (k, t, s, e') => {| r_kind := k; r_text := t; r_s := s; r_e := e'; r_inner := false |} end) l.

(** fparser's reader on the stripped text *)
Definition chk_fpread (text : string) (exp : list item4) : bool :=
  all2 item_matches (fp_read (text_lines text)) exp.

(** the reader built from [text]; items given (as read by the real fparser) or modelled *)
Definition the_reader (text : string) (items : option (list item4)) : reader :=
  match items with
  | Some l => mk_reader (text_lines text) (items_of l)
  | None => reader_of_text text
  end.

Definition zlist_eqb (a b : list Z) : bool := all2 Z.eqb a b.

(** basic attributes: source_lines count, sanitised lines, spans, string, head, tail, to_source(False/True),
    source_from_current_line for every sanitised line *)
Definition chk_reader_rd (rd : reader) (lines : list string)
    (nsrc : Z) (san : list item4) (spans : list Z) (str : string) (head tail ts_f ts_t : rexp) (cur : list rexp) : bool :=
  (zlen (rd_src rd) =? nsrc)
  && all2 item_matches (rd_san rd) san
  && zlist_eqb (rd_spans rd) spans
  && String.eqb (rd_str rd) str
  && chk_osrc lines (source_from_head rd) head
  && chk_osrc lines (source_from_tail rd) tail
  && chk_src lines (to_source rd false) ts_f
  && chk_src lines (to_source rd true) ts_t
  && all2 (fun k e => chk_src lines (source_from_line rd k) e)
          (map Z.of_nat (seq 0 (List.length (rd_san rd)))) cur.

(** the expected sanitised lines are given as indices into the list of expected reader items *)
Definition pick_items (eits : list item4) (idx : list nat) : list item4 :=
  map (fun i => nth i eits (KComment, EmptyString, 0, 0)) idx.

Definition chk_reader (text : string) (items : option (list item4)) (eits : list item4)
    (nsrc : Z) (san : list nat) (spans : list Z) (str : string) (head tail ts_f ts_t : rexp) (cur : list rexp) : bool :=
  chk_reader_rd (the_reader text items) (text_lines text) nsrc (pick_items eits san) spans str head tail ts_f ts_t cur.

(** expected sub-reader: None | error | (offset, first/last+1 source line index in the parent, sanitised
    items, spans, string, head, tail, to_source(True)) *)
Inductive strexp := StrSlice (a b : nat) | StrLit (s : string).
Inductive subexp :=
| SubNone | SubIdxErr
| Sub (off : Z) (i j : Z) (ss se : Z) (spans : list Z) (str : strexp) (head tail ts_t : rexp).

Definition item_eqb (x y : ritem) : bool :=
  rkind_eqb (r_kind x) (r_kind y) && String.eqb (r_text x) (r_text y) && (r_s x =? r_s y) && (r_e x =? r_e y).

Definition list_str_eqb (a b : list string) : bool := all2 String.eqb a b.

(** expected sub-reader: its source lines are lines i..j of the text, its sanitised lines are lines ss..se of the
    parent's, its string is given literally or as a slice of the parent's sanitised string *)
Definition chk_sub (parent : reader) (lines : list string) (r : res (option reader)) (exp : subexp) : bool :=
  match r, exp with
  | Ok None, SubNone => true
  | IdxErr, SubIdxErr => true
  | Ok (Some rd), Sub off i j ss se spans str head tail ts_t =>
      (rd_off rd =? off)
      && list_str_eqb (rd_src rd) (py_lslice lines i j)
      && all2 item_eqb (rd_san rd) (py_lslice (rd_san parent) ss se)
      && zlist_eqb (rd_spans rd) spans
      && String.eqb (rd_str rd) (match str with StrSlice a b => slice a b (rd_str parent) | StrLit t => t end)
      && chk_osrc lines (source_from_head rd) head
      && chk_osrc lines (source_from_tail rd) tail
      && chk_src lines (to_source rd true) ts_t
  | _, _ => false
  end.

(** one query: span (a, b), include_padding, expected source_from_sanitized_span, expected reader_from_sanitized_span *)
Definition query := (Z * option Z * bool * rexp * subexp)%type.
Definition chk_query (rd : reader) (lines : list string) (q : query) : bool :=
  match q with
  | (a, ob, pad, es, er) =>
      chk_osrc lines (source_from_span rd a ob pad) es && chk_sub rd lines (reader_from_span rd a ob pad) er
  end.
Definition chk_queries (text : string) (items : option (list item4)) (qs : list query) : bool :=
  forallb (chk_query (the_reader text items) (text_lines text)) qs.
