(** C04 — line wrapping of generated code: executable model of
    [loki/tools/strings.py:JoinableStringList] and [loki/backend/pprint.py:Stringifier.format_line].
    Definitions only (no proofs): the correspondence check must keep running when a proof breaks.

    Strings are lists of 8-bit characters (code points 0..255, i.e. ASCII plus Latin-1; the
    generators stay in that range).  Lengths are integers ([Z]) as in Python. *)
From Coq Require Import ZArith List Bool String Ascii NArith Uint63.
Import ListNotations.
Open Scope Z_scope.

Definition str := list ascii.
Definition len (s : str) : Z := Z.of_nat (List.length s).

Fixpoint str_eqb (a b : str) : bool :=
  match a, b with
  | [], [] => true
  | x :: a', y :: b' => Ascii.eqb x y && str_eqb a' b'
  | _, _ => false
  end.

Definition is_nil {A} (l : list A) : bool := match l with [] => true | _ => false end.

(** ** Character classes (Python [str.isspace] / regex [\s] on code points 0..255) *)
Definition code (c : ascii) : N := N_of_ascii c.
Definition is_space (c : ascii) : bool :=
  let n := code c in
  (((9 <=? n) && (n <=? 13)) || ((28 <=? n) && (n <=? 32)) || (n =? 133) || (n =? 160))%N.
Definition ch_nl : ascii := ascii_of_N 10.
Definition ch_cr : ascii := ascii_of_N 13.
Definition ch_sp : ascii := " "%char.
Definition ch_rpar : ascii := ")"%char.
Definition ch_pct : ascii := "%"%char.
Definition ch_sq : ascii := "'"%char.
Definition ch_dq : ascii := ascii_of_N 34.
Definition is_quote (c : ascii) : bool := Ascii.eqb c ch_sq || Ascii.eqb c ch_dq.
(** line boundaries of [str.splitlines] in the Latin-1 range (\r\n handled by the scanner) *)
Definition is_linebreak (c : ascii) : bool :=
  let n := code c in (((10 <=? n) && (n <=? 13)) || ((28 <=? n) && (n <=? 30)) || (n =? 133))%N.

(** ** The two regular expressions of JoinableStringList written as scanners *)

(** [_pattern_quoted_string = (?:'.*?')|(?:".*?")]: from an opening quote [q], the lazy [.*?] stops at the
    first [q]; [.] does not match a newline, so a newline before the closing quote makes the attempt fail. *)
Fixpoint has_close (q : ascii) (s : str) : bool :=
  match s with
  | [] => false
  | c :: r => if Ascii.eqb c q then true else if Ascii.eqb c ch_nl then false else has_close q r
  end.

Inductive seg := Plain (s : str) | Quoted (s : str).
Inductive qst := QOut | QIn (q : ascii).

Definition plain (acc : str) : list seg := match acc with [] => [] | _ => [Plain acc] end.

(** [finditer]: leftmost non-overlapping matches; the text between matches is kept as [Plain] (only if non-empty,
    as in the two [if] guards around the [split] calls). *)
Fixpoint scan (s : str) (st : qst) (acc : str) : list seg :=
  match s with
  | [] => plain acc
  | c :: r =>
    match st with
    | QOut => if is_quote c && has_close c r then plain acc ++ scan r (QIn c) [c]
              else scan r QOut (acc ++ [c])
    | QIn q => if Ascii.eqb c q then Quoted (acc ++ [c]) :: scan r QOut []
               else scan r (QIn q) (acc ++ [c])
    end
  end.

(** [_pattern_chunk_separator = (\s|\)(?!%)|\n)] *)
Definition is_sep (c : ascii) (rest : str) : bool :=
  is_space c || (Ascii.eqb c ch_rpar && negb (match rest with d :: _ => Ascii.eqb d ch_pct | [] => false end)).

(** [re.split] with one capture group: the pieces between separators (possibly empty) alternate with the separators *)
Fixpoint split_seps (s : str) (cur : str) : list str :=
  match s with
  | [] => [cur]
  | c :: r => if is_sep c r then cur :: [c] :: split_seps r [] else split_seps r (cur ++ [c])
  end.

Definition seg_chunks (g : seg) : list str :=
  match g with Plain t => split_seps t [] | Quoted q => [q] end.

Definition chunk_list (s : str) : list str := flat_map seg_chunks (scan s QOut []).

(** ** Objects *)
Record P := mkP { sep : str; width : Z; c0 : str; c1 : str; separable : bool }.

Inductive item := IStr (s : str) | IJ (p : P) (its : list item).

Inductive err := EAssert | EAttr | EType | EFuel.
Inductive res (A : Type) := Ok (a : A) | Err (e : err).
Arguments Ok {A} a.
Arguments Err {A} e.

(** [other + str] on an item: [str.__add__] or [JoinableStringList.__add__] (deepcopy, last item gets the suffix) *)
Fixpoint add_sfx (it : item) (s : str) : item :=
  match it with
  | IStr x => IStr (x ++ s)
  | IJ p its =>
    IJ p ((fix go (l : list item) : list item :=
             match l with
             | [] => [IStr s]
             | x :: t => match t with [] => [add_sfx x s] | _ => x :: go t end
             end) its)
  end.

(** [str + other] ([__radd__]) *)
Fixpoint add_pfx (s : str) (it : item) : item :=
  match it with
  | IStr x => IStr (s ++ x)
  | IJ p its => IJ p (match its with [] => [IStr s] | x :: t => add_pfx s x :: t end)
  end.

(** ** [_add_item_to_line] for a plain string and the chunk path *)
Definition fits (p : P) (s : str) : bool := len s + len (c0 p) <=? width p.

Fixpoint first_loop (p : P) (line : str) (chs : list str) : str * option (list str) :=
  match chs with
  | [] => (line, None)
  | ch :: r => if fits p (line ++ ch) then first_loop p (line ++ ch) r else (line, Some chs)
  end.

Fixpoint second_loop (p : P) (line : str) (chs : list str) : str * list str :=
  match chs with
  | [] => (line, [])
  | ch :: r =>
    if negb (fits p (line ++ ch)) && negb (str_eqb line (c1 p))
    then let '(l, ls) := second_loop p (c1 p ++ ch) r in (l, (line ++ c0 p) :: ls)
    else second_loop p (line ++ ch) r
  end.

(** "let's try our best by splitting the string": [next_chunk] stays 0 when the first loop never breaks,
    so in that case the whole chunk list is emitted again (modelled as written). *)
Definition chunk_path (p : P) (line : str) (item_str : str) : str * list str :=
  let chs := chunk_list item_str in
  let '(line1, brk) := first_loop p line chs in
  let rest := match brk with Some r => r | None => chs end in
  let pre := if str_eqb line1 (c1 p) then [] else [line1 ++ c0 p] in
  let '(l, ls) := second_loop p (c1 p) rest in
  (l, pre ++ ls).

Definition add_str (p : P) (line : str) (s : str) : str * list str :=
  if fits p (line ++ s) then (line ++ s, [])
  else if fits p (c1 p ++ s) then (c1 p ++ s, [line ++ c0 p])
  else chunk_path p line s.

(** [sep.join(str(i) for i in items)] *)
Fixpoint join_res (sof : item -> res str) (sp : str) (its : list item) : res str :=
  match its with
  | [] => Ok []
  | x :: t =>
    match sof x with
    | Err e => Err e
    | Ok s => match t with
              | [] => Ok s
              | _ => match join_res sof sp t with Err e => Err e | Ok r => Ok (s ++ sp ++ r) end
              end
    end
  end.

(** The item loop of [_to_str]; [add] is [self._add_item_to_line], [sof] is [str].
    Returns the text and, when [stop_on_continuation] fired, the remaining items
    (the new JoinableStringList has the same parameters). *)
Fixpoint to_str_loop (add : str -> item -> res (str * list str)) (sof : item -> res str) (sp : str) (stop : bool)
         (rem : list item) (line : str) (lines : list str) {struct rem} : res (str * option (list item)) :=
  match rem with
  | [] => Ok (List.concat lines ++ line, None)
  | it :: rest =>
    match sof it with
    | Err e => Err e
    | Ok s =>
      if is_nil s then to_str_loop add sof sp stop rest line lines else
      let sp' := match rest with [] => [] | _ => sp end in
      match add line (add_sfx it sp') with
      | Err e => Err e
      | Ok (line', ls) =>
        if stop && negb (is_nil ls) then Ok (line, Some rem)
        else to_str_loop add sof sp stop rest line' (lines ++ ls)
      end
    end
  end.

(** ** [_add_item_to_line], [__str__], [_to_str]: mutual recursion, explicit fuel. *)
Fixpoint add_item (fuel : nat) (p : P) (line : str) (it : item) {struct fuel} : res (str * list str) :=
  match it with
  | IStr s => Ok (add_str p line s)
  | IJ q qits =>
    match fuel with
    | O => Err EFuel
    | S f =>
      match str_of f it with
      | Err e => Err e
      | Ok s =>
        if fits p (line ++ s) then Ok (line ++ s, []) else
        let itfits := fits p (c1 p ++ s) in
        let fall (_ : unit) : res (str * list str) :=
          if itfits then Ok (c1 p ++ s, [line ++ c0 p])
          else match join_res (str_of f) (sep q) qits with
               | Err e => Err e
               | Ok istr => Ok (chunk_path p line istr)
               end in
        if (separable q || negb itfits) && (1 <? Z.of_nat (List.length qits)) then
          match to_str f q qits line true with
          | Err e => Err e
          | Ok (_, None) => Err EAttr        (* new_item is None: 'NoneType' object has no attribute 'items' *)
          | Ok (line_, Some rest) =>
            if (List.length rest <? List.length qits)%nat then
              match add_item f p (c1 p) (IJ q rest) with
              | Err e => Err e
              | Ok (nl, ls) => Ok (nl, (line_ ++ c0 p) :: ls)
              end
            else fall tt
          end
        else fall tt
      end
    end
  end
with str_of (fuel : nat) (it : item) {struct fuel} : res str :=
  match it with
  | IStr s => Ok s
  | IJ q qits =>
    match fuel with
    | O => Err EFuel
    | S f => match to_str f q qits [] false with Ok (t, _) => Ok t | Err e => Err e end
    end
  end
with to_str (fuel : nat) (q : P) (its : list item) (line0 : str) (stop : bool) {struct fuel}
  : res (str * option (list item)) :=
  match fuel with
  | O => Err EFuel
  | S f =>
    match its with
    | [] => Ok ([], None)
    | _ => to_str_loop (add_item f q) (str_of f) (sep q) stop its line0 []
    end
  end.

(** ** Constructor: [cont] normalisation and assertions *)
Fixpoint lstrip_sp (s : str) : str :=
  match s with c :: r => if Ascii.eqb c ch_sp then lstrip_sp r else s | [] => [] end.
Definition strip_sp (s : str) : str := rev (lstrip_sp (rev (lstrip_sp s))).

(** [str.splitlines(keepends=True)] *)
Fixpoint splitlines (s : str) (cur : str) : list str :=
  match s with
  | [] => match cur with [] => [] | _ => [cur] end
  | c :: r =>
    if Ascii.eqb c ch_cr then
      match r with
      | d :: r' => if Ascii.eqb d ch_nl then (cur ++ [c; d]) :: splitlines r' [] else (cur ++ [c]) :: splitlines r []
      | [] => [cur ++ [c]]
      end
    else if is_linebreak c then (cur ++ [c]) :: splitlines r []
    else splitlines r (cur ++ [c])
  end.

Inductive rcont := CStr (s : str) | CPair (a b : str).

Definition norm_cont (c : rcont) (w : Z) : option (str * str) :=
  let pr := match c with
            | CPair a b => Some (a, b)
            | CStr s => match splitlines s [] with [a] => Some (a, []) | [a; b] => Some (a, b) | _ => None end
            end in
  match pr with
  | None => None
  | Some (a, b) =>
    let '(a', b') := if w <=? len (a ++ b) then (strip_sp a, strip_sp b) else (a, b) in
    if (len a' <? w) && (len b' <? w) then Some (a', b') else None
  end.

(** Python expressions that build the objects: literals, [None], the constructor, [+] *)
Inductive raw :=
| RNone
| RStr (s : str)
| RJ (items : list raw) (sp : str) (w : Z) (cont : rcont) (separable : bool)
| RCat (a b : raw).

(** the list comprehension [[item for item in items if item is not None]] over already evaluated arguments *)
Fixpoint collect (l : list (res (option item))) : res (list item) :=
  match l with
  | [] => Ok []
  | Err e :: _ => Err e
  | Ok o :: t => match collect t with
                 | Err e => Err e
                 | Ok l' => Ok (match o with None => l' | Some i => i :: l' end)
                 end
  end.

Fixpoint build (r : raw) : res (option item) :=
  match r with
  | RNone => Ok None
  | RStr s => Ok (Some (IStr s))
  | RJ items sp w cont b =>
    match collect (map build items) with
    | Err e => Err e
    | Ok l => match norm_cont cont w with
              | None => Err EAssert
              | Some (a, b') => Ok (Some (IJ (mkP sp w a b' b) l))
              end
    end
  | RCat a b =>
    match build a with
    | Err e => Err e
    | Ok oa =>
      match build b with
      | Err e => Err e
      | Ok ob =>
        match oa, ob with
        | Some (IStr x), Some (IStr y) => Ok (Some (IStr (x ++ y)))
        | Some (IStr x), Some (IJ q l) => Ok (Some (add_pfx x (IJ q l)))
        | Some (IJ q l), Some (IStr y) => Ok (Some (add_sfx (IJ q l) y))
        | Some (IJ q l), Some (IJ q' l') => Ok (Some (IJ (mkP [] (width q) (c0 q) (c1 q) false) [IJ q l; IJ q' l']))
        | _, _ => Err EType
        end
      end
    end
  end.

Fixpoint isize (it : item) : nat :=
  match it with
  | IStr _ => 1
  | IJ _ its => S ((fix go (l : list item) : nat := match l with [] => O | x :: t => (isize x + go t)%nat end) its)
  end.
Definition fuel_of (it : item) : nat := (4 * isize it + 10)%nat.

(** [str(obj)] for a Python expression *)
Definition str_raw (r : raw) : res str :=
  match build r with
  | Err e => Err e
  | Ok None => Ok (list_ascii_of_string "None")
  | Ok (Some it) => str_of (fuel_of it) it
  end.

(** ** [Stringifier.format_line] *)
Fixpoint rstrip_rev (s : str) : str :=
  match s with c :: r => if is_space c then rstrip_rev r else s | [] => [] end.
Definition rstrip (s : str) : str := rev (rstrip_rev (rev s)).

Fixpoint concat_res (l : list (res str)) : res str :=
  match l with
  | [] => Ok []
  | Ok s :: t => match concat_res t with Ok r => Ok (s ++ r) | Err e => Err e end
  | Err e :: _ => Err e
  end.

(** [items]: the positional arguments; [indent]: [style.indent_char * depth]; [cont]: [line_cont(indent)];
    [comment = None] also stands for the empty comment (both are falsy). *)
Definition format_line (w : Z) (indent : str) (cont : rcont) (items : list raw)
           (comment : option str) (no_wrap no_indent trim_spaces : bool) : res str :=
  let items' := if no_indent then items else RStr indent :: items in
  let line := if no_wrap then concat_res (map str_raw items')
              else str_raw (RJ items' [] w cont true) in
  match line with
  | Err e => Err e
  | Ok l =>
    match comment with
    | Some (c :: cr) => Ok (l ++ c :: cr)
    | _ => Ok (if trim_spaces then rstrip l else l)
    end
  end.

(** ** Structured output for string-only lists (used by the theorems): the emitted lines (each ends with [c0])
    and the current last line. *)
Fixpoint wrap_lines (p : P) (ss : list str) (line : str) : list str * str :=
  match ss with
  | [] => ([], line)
  | s :: rest =>
    match s with
    | [] => wrap_lines p rest line
    | _ =>
      let sp := match rest with [] => [] | _ => sep p end in
      let '(line', ls) := add_str p line (s ++ sp) in
      let '(ls', last) := wrap_lines p rest line' in
      (ls ++ ls', last)
    end
  end.

(** ** Fortran character-literal scanner (what a compiler sees): a doubled quote inside a literal is an escaped quote.
    [LClosed q]: the previous character closed a [q]-literal (a following [q] re-opens it). *)
Inductive lst := LOut | LIn (q : ascii) | LClosed (q : ascii).
Definition lit_step (st : lst) (c : ascii) : lst :=
  match st with
  | LIn q => if Ascii.eqb c q then LClosed q else LIn q
  | LClosed q => if Ascii.eqb c q then LIn q else if is_quote c then LIn c else LOut
  | LOut => if is_quote c then LIn c else LOut
  end.
Definition lit_state (s : str) : lst := fold_left lit_step s LOut.
(** a cut between [pre] and [post] falls inside a character literal *)
Definition cut_in_literal (pre post : str) : bool :=
  match lit_state pre, post with
  | LIn _, _ => true
  | LClosed q, c :: _ => Ascii.eqb c q
  | _, _ => false
  end.

(** ** Correspondence entry points *)
Definition los := list_ascii_of_string.

(** strings of the case files: packed 7 bytes per 63-bit word (little endian), first word = length.
    (Ordinary string literals make coqc spend minutes on parsing the case files.) *)
Definition byte_of (w : int) : ascii := ascii_of_N (Z.to_N (Uint63.to_Z (Uint63.land w 255))).
Fixpoint dec_word (k : nat) (w : int) (rest : str) : str :=
  match k with O => rest | S k' => byte_of w :: dec_word k' (Uint63.lsr w 8) rest end.
Fixpoint dec_words (n : nat) (ws : list int) : str :=
  match ws with
  | [] => []
  | w :: r => if Nat.leb n 7 then dec_word n w [] else dec_word 7 w (dec_words (n - 7) r)
  end.
Definition d (ws : list int) : str :=
  match ws with [] => [] | n :: r => dec_words (Z.to_nat (Uint63.to_Z n)) r end.

Definition eq_res (a : res str) (b : res str) : bool :=
  match a, b with
  | Ok x, Ok y => str_eqb x y
  | Err EAssert, Err EAssert | Err EAttr, Err EAttr | Err EType, Err EType => true
  | _, _ => false
  end.

Definition chk_jsl (r : raw) (impl : res str) : bool := eq_res (str_raw r) impl.

Definition chk_format_line (w : Z) (indent : str) (cont : rcont) (items : list raw)
           (comment : option str) (no_wrap no_indent trim_spaces : bool) (impl : res str) : bool :=
  eq_res (format_line w indent cont items comment no_wrap no_indent trim_spaces) impl.

Definition chk_chunks (s : str) (impl : list str) : bool :=
  let m := chunk_list s in
  Nat.eqb (List.length m) (List.length impl) && forallb (fun xy => str_eqb (fst xy) (snd xy)) (combine m impl).
