(** C33 — region outlining and extraction of internal procedures, on the shared MiniF core.
    Definitions only (proofs: proofs/P_C33*.v).

    Modelled code:
      loki/transformations/extract/outline.py   outline_region, outline_pragma_regions, order_variables_by_type
      loki/transformations/extract/internal.py  extract_internal_procedure(s)
    The region's [uses_symbols]/[defines_symbols] are the C26 transfer functions
    ([M_C26.uses_of]/[M_C26.defines_of], model of loki/analyse/dataflow_analysis.py).

    Contents
      1. small string utilities (ordering used by [sorted(..., key=str)], decimal numerals)
      2. the outlining model: argument classification, pragma overrides, argument/local lists, CALL
      3. semantics of the outlined program (CALL with dummy intents, callee locals undefined = taken
         from an arbitrary "garbage" store) and the decidable class predicate [flow]
      4. the extraction of internal procedures: model, semantics of host association, class predicate
      5. boolean comparators for the correspondence *)
From Coq Require Import ZArith List Bool String Ascii.
From LV Require Import Base.Expr Base.MiniF models.M_C26.
Import ListNotations.
Open Scope Z_scope.

(** * 1. Strings *)

(** code-point order of Python's [sorted(variables, key=str)] (names are lower-case ASCII; for arrays
    the key is [name(dims)], which orders like the bare name because '(' is smaller than every
    identifier character) *)
Fixpoint str_leb (a b : string) : bool :=
  match a, b with
  | EmptyString, _ => true
  | String _ _, EmptyString => false
  | String c r, String d q =>
      let m := nat_of_ascii c in let n := nat_of_ascii d in
      if Nat.ltb m n then true else if Nat.ltb n m then false else str_leb r q
  end.

(** stable insertion sort on a string key *)
Fixpoint ins_by {A} (key : A -> string) (x : A) (l : list A) : list A :=
  match l with
  | [] => [x]
  | y :: r => if str_leb (key y) (key x) then y :: ins_by key x r else x :: l
  end.
Definition sort_by {A} (key : A -> string) (l : list A) : list A :=
  fold_left (fun acc x => ins_by key x acc) l [].

Fixpoint dec_aux (fuel n : nat) (acc : string) : string :=
  match fuel with
  | O => acc
  | S f =>
      let acc' := String (ascii_of_nat (48 + Nat.modulo n 10)) acc in
      if Nat.eqb (Nat.div n 10) 0 then acc' else dec_aux f (Nat.div n 10) acc'
  end.
(** decimal numeral of a natural number (Python's [str(counter)]) *)
Definition dec (n : nat) : string := dec_aux (S n) n EmptyString.

Fixpoint dedup_acc (seen l : names) : names :=
  match l with
  | [] => []
  | x :: r => if mem x seen then dedup_acc seen r else x :: dedup_acc (x :: seen) r
  end.
(** first occurrences *)
Definition dedup (l : names) : names := dedup_acc [] l.

(** * 2. Outlining *)

(** what the transformation reads from the host routine: its name, the declared arrays with their
    extents (all lower bounds are 1 and literal in the modelled fragment), the PARAMETER constants,
    the imported symbols (procedure names in the fragment) and the names of [routine.variable_map] *)
Record hostd := { h_name : string; h_shapes : list (string * list Z); h_pars : names; h_imps : names; h_vars : names }.

Definition is_arr (h : hostd) (x : string) : bool := existsb (fun p => String.eqb x (fst p)) (h_shapes h).
Fixpoint shape_of (l : list (string * list Z)) (x : string) : list Z :=
  match l with
  | [] => []
  | (y, d) :: r => if String.eqb x y then d else shape_of r x
  end.

(** a [!$loki outline [name(..)] [in(..)] [inout(..)] [out(..)]] ... [!$loki end outline] region *)
Record oregion := { r_name : option string; r_in : names; r_inout : names; r_out : names; r_body : list stmt }.
Inductive item := IStmt (s : stmt) | IRegion (r : oregion).

(** the original program: pragmas are comments *)
Definition orig (its : list item) : list stmt :=
  flat_map (fun it => match it with IStmt s => [s] | IRegion r => r_body r end) its.

(** FindVariables over a body: every variable name, at any depth *)
Fixpoint svars_stmt (st : stmt) : names :=
  match st with
  | SAssign x e => x :: evars e
  | SStore a idx e => a :: flat_map evars idx ++ evars e
  | SDo v lo hi stp b => v :: bound_vars lo hi stp ++ flat_map svars_stmt b
  | SWhile c b => evars c ++ flat_map svars_stmt b
  | SIf c t e => evars c ++ flat_map svars_stmt t ++ flat_map svars_stmt e
  | SCall _ args => flat_map evars args
  | SSkip _ => []
  end.
Definition svars (ss : list stmt) : names := flat_map svars_stmt ss.

(** names of the called subroutines (the ProcedureSymbol of a CallStatement is a variable for
    FindVariables; function symbols of intrinsic calls are not) *)
Fixpoint callees_stmt (st : stmt) : names :=
  match st with
  | SDo _ _ _ _ b | SWhile _ b => flat_map callees_stmt b
  | SIf _ t e => flat_map callees_stmt t ++ flat_map callees_stmt e
  | SCall f _ => [f]
  | _ => []
  end.
Definition callees (ss : list stmt) : names := flat_map callees_stmt ss.

(** a symbol in the argument sets: the dataflow sets hold subscript-free symbols, the symbols named
    in the pragma are looked up in the host's variable map and carry the declared dimensions when
    they are arrays — the two never compare equal ([snd] = carries dimensions) *)
Definition sym := (string * bool)%type.
Definition sym_eqb (a b : sym) : bool := String.eqb (fst a) (fst b) && Bool.eqb (snd a) (snd b).
Definition smem (x : sym) (l : list sym) : bool := existsb (sym_eqb x) l.
Definition sdiff (a b : list sym) : list sym := filter (fun x => negb (smem x b)) a.
Definition sinter (a b : list sym) : list sym := filter (fun x => smem x b) a.
Fixpoint sdedup_acc (seen l : list sym) : list sym :=
  match l with
  | [] => []
  | x :: r => if smem x seen then sdedup_acc seen r else x :: sdedup_acc (x :: seen) r
  end.
Definition sdedup (l : list sym) : list sym := sdedup_acc [] l.
(** OrderedSet union *)
Definition sunion (a b : list sym) : list sym := a ++ sdiff b a.

Definition plain (l : names) : list sym := map (fun x => (x, false)) l.
Definition pragma_syms (h : hostd) (l : names) : list sym := sdedup (map (fun x => (x, is_arr h x)) l).

(** [in = uses - defines] (minus PARAMETERs), [inout = uses & defines], [out = defines - uses], then the
    pragma overrides (outline.py l.88-106) *)
Definition classify (h : hostd) (sg : sigs) (r : oregion) : list sym * list sym * list sym :=
  let u := plain (dedup (uses_of sg (r_body r))) in
  let d := plain (dedup (defines_of sg (r_body r))) in
  let in0 := filter (fun s => negb (mem (fst s) (h_pars h))) (sdiff u d) in
  let io0 := sinter u d in
  let out0 := sdiff d u in
  let pin := pragma_syms h (r_in r) in
  let pio := pragma_syms h (r_inout r) in
  let pout := pragma_syms h (r_out r) in
  (sunion (sdiff in0 (sunion pio pout)) pin,
   sunion (sdiff io0 (sunion pin pout)) pio,
   sunion (sdiff out0 (sunion pin pio)) pout).

(** the argument list in creation order: all [in], then all [inout], then all [out] *)
Definition arg_entries (c : list sym * list sym * list sym) : list (sym * intent) :=
  let '(i, io, o) := c in
  map (fun s => (s, IIn)) i ++ map (fun s => (s, IInOut)) io ++ map (fun s => (s, IOut)) o.

(** the symbol table of the new routine keeps ONE type per name: the last entry wins *)
Definition last_entry (al : list (sym * intent)) (x : string) : option (sym * intent) :=
  fold_left (fun acc e => if String.eqb (fst (fst e)) x then Some e else acc) al None.

(** order_variables_by_type: lexicographic, arrays before scalars *)
Definition order_names (h : hostd) (l : names) : names :=
  sort_by (fun x => x) (filter (is_arr h) l) ++ sort_by (fun x => x) (filter (fun x => negb (is_arr h x)) l).

(** the outlined routine and its call:
    [o_args]: dummy name, is-array flag, intent; [o_call]: the actual arguments of the generated CALL;
    [o_locals]: the other declared names, [o_consts]: those of them that are PARAMETER constants *)
Record outlined := { o_name : string; o_args : list (string * bool * intent); o_call : list expr;
                     o_locals : names; o_consts : names; o_body : list stmt }.

Definition intent_of_entry (e : option (sym * intent)) : intent := match e with Some (_, i) => i | None => INone end.

Definition outline_region (h : hostd) (sg : sigs) (n : nat) (r : oregion) : outlined :=
  let al := arg_entries (classify h sg r) in
  let anames := order_names h (map (fun e => fst (fst e)) al) in
  let body := r_body r in
  let rv := dedup (svars body) in
  let ext := filter (fun f => negb (mem f (h_imps h))) (dedup (callees body)) in
  let locals := filter (fun x => negb (mem x anames)) rv in
  {| o_name := match r_name r with Some s => s | None => h_name h ++ "_outlined_" ++ dec n end;
     o_args := map (fun x => (x, is_arr h x, intent_of_entry (last_entry al x))) anames;
     o_call := map (fun x => match last_entry al x with
                             | Some ((_, true), _) => ECall x (map EInt (shape_of (h_shapes h) x))
                             | _ => EVar x end) anames;
     o_locals := sort_by (fun x => x) ext ++ order_names h locals;
     o_consts := filter (fun x => mem x (h_pars h)) (order_names h locals);
     o_body := body |}.

(** the caller after the transformation *)
Inductive citem := CStmt (s : stmt) | CCall (o : outlined).

(** [None]: a name in a pragma list is not a variable of the host (KeyError before anything is changed) *)
Fixpoint outline_items (h : hostd) (sg : sigs) (n : nat) (its : list item) : option (list citem) :=
  match its with
  | [] => Some []
  | IStmt s :: r => option_map (cons (CStmt s)) (outline_items h sg n r)
  | IRegion rg :: r =>
      if forallb (fun x => mem x (h_vars h)) (r_in rg ++ r_inout rg ++ r_out rg)
      then option_map (cons (CCall (outline_region h sg n rg))) (outline_items h sg (S n) r)
      else None
  end.
Definition outline (h : hostd) (sg : sigs) (its : list item) : option (list citem) := outline_items h sg 0%nat its.

(** the body of the caller as MiniF statements, and the regions put back in place *)
Definition caller_stmts (cs : list citem) : list stmt :=
  map (fun c => match c with CStmt s => s | CCall o => SCall (o_name o) (o_call o) end) cs.
Definition inline (cs : list citem) : list stmt :=
  flat_map (fun c => match c with CStmt s => [s] | CCall o => o_body o end) cs.
Definition new_routines (cs : list citem) : list outlined :=
  flat_map (fun c => match c with CStmt _ => [] | CCall o => [o] end) cs.

(** * 3. Semantics of the outlined program *)

(** typed names: [(x, false)] the scalar x, [(a, true)] the array a (the two name spaces of a store) *)
Definition tn := (string * bool)%type.
Definition tmem (x : string) (b : bool) (l : list tn) : bool :=
  existsb (fun p => String.eqb x (fst p) && Bool.eqb b (snd p)) l.
Definition tmemp (p : tn) (l : list tn) : bool := tmem (fst p) (snd p) l.
Definition tdiff (a b : list tn) : list tn := filter (fun p => negb (tmemp p b)) a.
Definition tinter (a b : list tn) : list tn := filter (fun p => tmemp p b) a.
Definition tsubset (a b : list tn) : bool := forallb (fun p => tmemp p b) a.
Definition tdisj (a b : list tn) : bool := forallb (fun p => negb (tmemp p b)) a.

(** [pickT X s g]: the variables listed in [X] come from [s], everything else from [g] *)
Definition pickT (X : list tn) (s g : store) : store :=
  {| sv := fun x => if tmem x false X then sv s x else sv g x;
     av := fun a => if tmem a true X then av s a else av g a |}.

(** dummies whose value is defined on entry: intent in and inout — and out when the compiler's
    by-reference passing is assumed ([strict = false]); under the standard's rule ([strict = true]) an
    intent(out) dummy is undefined on entry.  A PARAMETER local denotes the same constant as in the
    host; it is modelled as read from the caller's store. *)
Definition o_entry (strict : bool) (o : outlined) : list tn :=
  flat_map (fun a => match a with (x, b, i) =>
              match i with IIn | IInOut => [(x, b)] | IOut => if strict then [] else [(x, b)] | INone => [] end end) (o_args o)
  ++ map (fun c => (c, false)) (o_consts o).
(** dummies whose final value reaches the actual argument: intent inout and out *)
Definition o_exit (o : outlined) : list tn :=
  flat_map (fun a => match a with (x, b, i) => if is_out i then [(x, b)] else [] end) (o_args o).

(** CALL of an outlined routine: actual and dummy have the same name; everything that is not defined
    on entry (locals, intent(out) dummies) holds whatever the garbage store [g] holds *)
Definition ocall (ps : procs) (strict : bool) (g : store) (fuel : nat) (o : outlined) (s : store) : option store :=
  obind (exec ps fuel (o_body o) (pickT (o_entry strict o) s g)) (fun c => Some (pickT (o_exit o) c s)).

Fixpoint exec_c (ps : procs) (strict : bool) (g : store) (fuel : nat) (cs : list citem) (s : store) : option store :=
  match cs with
  | [] => Some s
  | CStmt st :: r => obind (exec ps fuel [st] s) (fun s1 => exec_c ps strict g fuel r s1)
  | CCall o :: r => obind (ocall ps strict g fuel o s) (fun s1 => exec_c ps strict g fuel r s1)
  end.

(** the relational version (fuel existentially quantified per step), used by the theorems *)
Inductive runs_c (ps : procs) (strict : bool) (g : store) : list citem -> store -> store -> Prop :=
| RC_nil s : runs_c ps strict g [] s s
| RC_stmt st r s s1 s' :
    (exists f, exec ps f [st] s = Some s1) -> runs_c ps strict g r s1 s' -> runs_c ps strict g (CStmt st :: r) s s'
| RC_call o r s c s' :
    (exists f, exec ps f (o_body o) (pickT (o_entry strict o) s g) = Some c) ->
    runs_c ps strict g r (pickT (o_exit o) c s) s' -> runs_c ps strict g (CCall o :: r) s s'.

(** the outlined routine is usable as generated: distinct dummies, and the CALL passes each dummy's
    namesake *)
Definition nodup_names (l : names) : bool := nodupb l.
Definition o_wf (o : outlined) : bool :=
  nodup_names (map (fun a => fst (fst a)) (o_args o)) &&
  list_expr_eqb (o_call o) (map (fun a => EVar (fst (fst a))) (o_args o)).

(** ** Reads, certain writes, possible writes (typed) *)

(** locations whose value the evaluation of [e] may depend on *)
Fixpoint er (e : expr) : list tn :=
  match e with
  | EInt _ | EPy _ | ELog _ => []
  | EVar x => [(x, false)]
  | ESum _ cs | EProd _ cs | EAnd cs | EOr cs => flat_map er cs
  | EQuot _ a b | EPow _ a b | ECmp _ a b => er a ++ er b
  | ENot a => er a
  | ECall f args => (if is_intrinsic f then [] else [(f, true)]) ++ flat_map er args
  end.

(** what [copy_in] reads and what [copy_out] writes in the caller *)
Fixpoint call_reads (params : list (string * bool)) (args : list expr) : list tn :=
  match params, args with
  | (_, true) :: ps, EVar a :: r => (a, true) :: call_reads ps r
  | (_, false) :: ps, e :: r => er e ++ call_reads ps r
  | _, _ => []
  end.
Fixpoint call_writes (params : list (string * bool)) (args : list expr) : list tn :=
  match params, args with
  | (_, true) :: ps, EVar a :: r => (a, true) :: call_writes ps r
  | (_, false) :: ps, EVar x :: r => (x, false) :: call_writes ps r
  | _ :: ps, _ :: r => call_writes ps r
  | _, _ => []
  end.

Definition step_er (stp : option expr) : list tn := match stp with Some e => er e | None => [] end.

(** scalars that every terminating execution assigns (a DO variable is always set; arrays are only
    ever written element-wise, so no array is certainly defined as a whole) *)
Fixpoint mdef_s (st : stmt) : list tn :=
  match st with
  | SAssign x _ => [(x, false)]
  | SDo v _ _ _ _ => [(v, false)]
  | SIf _ tb eb => tinter (flat_map mdef_s tb) (flat_map mdef_s eb)
  | _ => []
  end.
Definition mdef_l (ss : list stmt) : list tn := flat_map mdef_s ss.

(** upward-exposed reads: locations that may be read before the statement (list) itself has
    certainly written them *)
Definition ue_fold (f : stmt -> list tn) : list stmt -> list tn :=
  fix body (ss : list stmt) : list tn :=
    match ss with
    | [] => []
    | x :: r => f x ++ tdiff (body r) (mdef_s x)
    end.
Fixpoint ue_s (ps : procs) (st : stmt) : list tn :=
  match st with
  | SAssign _ e => er e
  | SStore _ idx e => flat_map er idx ++ er e
  | SDo v lo hi stp b => er lo ++ er hi ++ step_er stp ++ tdiff (ue_fold (ue_s ps) b) [(v, false)]
  | SWhile c b => er c ++ ue_fold (ue_s ps) b
  | SIf c tb eb => er c ++ ue_fold (ue_s ps) tb ++ ue_fold (ue_s ps) eb
  | SCall f args => match find_proc ps f with Some p => call_reads (p_params p) args | None => [] end
  | SSkip _ => []
  end.
Definition ue_l (ps : procs) : list stmt -> list tn := ue_fold (ue_s ps).

(** locations that an execution may change *)
Fixpoint wr_s (ps : procs) (st : stmt) : list tn :=
  match st with
  | SAssign x _ => [(x, false)]
  | SStore a _ _ => [(a, true)]
  | SDo v _ _ _ b => (v, false) :: flat_map (wr_s ps) b
  | SWhile _ b => flat_map (wr_s ps) b
  | SIf _ tb eb => flat_map (wr_s ps) tb ++ flat_map (wr_s ps) eb
  | SCall f args => match find_proc ps f with Some p => call_writes (p_params p) args | None => [] end
  | SSkip _ => []
  end.
Definition wr_l (ps : procs) (ss : list stmt) : list tn := flat_map (wr_s ps) ss.

(** ** The class: a forward pass over the transformed caller that tracks the set [D] of locations on
    which the original and the outlined program may differ.
    - a plain statement must not read a location of [D]; what it certainly assigns leaves [D];
    - a CALL of an outlined routine: every upward-exposed read of the region must be defined on
      entry ("a variable read before it is written in the region is an in/inout argument") and must
      not be in [D]; afterwards a location that is passed back is reliable iff it was reliable and
      passed in, or the region certainly assigns it; a location that is not passed back is
      unreliable as soon as the region may write it ("a variable written in the region and read
      afterwards must be an out/inout argument"). *)
Definition flow_step (ps : procs) (strict : bool) (D : list tn) (c : citem) : option (list tn) :=
  match c with
  | CStmt st => if tdisj (ue_s ps st) D then Some (tdiff D (mdef_s st)) else None
  | CCall o =>
      let ins := o_entry strict o in
      let outs := o_exit o in
      let R := o_body o in
      if o_wf o && tsubset (ue_l ps R) ins && tdisj (ue_l ps R) D then
        Some (filter (fun p => negb ((tmemp p ins && negb (tmemp p D)) || tmemp p (mdef_l R))) outs
              ++ filter (fun p => negb (tmemp p outs)) (D ++ wr_l ps R))
      else None
  end.
Fixpoint flow (ps : procs) (strict : bool) (cs : list citem) (D : list tn) : option (list tn) :=
  match cs with
  | [] => Some D
  | c :: r => match flow_step ps strict D c with Some D' => flow ps strict r D' | None => None end
  end.

(** pointwise agreement of two stores on the locations selected by [P] / outside a list [D] *)
Definition agreeP (P : tn -> bool) (s1 s2 : store) : Prop :=
  (forall x, P (x, false) = true -> sv s1 x = sv s2 x) /\
  (forall a, P (a, true) = true -> forall i, av s1 a i = av s2 a i).
Definition agree_out (D : list tn) : store -> store -> Prop := agreeP (fun p => negb (tmemp p D)).
Definition agree_on (X : list tn) : store -> store -> Prop := agreeP (fun p => tmemp p X).

(** the generated Fortran compiles: no dummy is declared twice, the actuals are whole variables, an
    intent(in) dummy is not written (a DO variable counts), no host dummy becomes a local (it would
    keep its INTENT attribute), every called subroutine is imported, no PARAMETER constant is a dummy
    (only the [in] set is filtered; a constant passed to a subroutine without call context is [inout]) *)
Definition compilable (h : hostd) (ps : procs) (hdummies : names) (o : outlined) : bool :=
  o_wf o &&
  forallb (fun a => negb (mem (fst (fst a)) (h_pars h))) (o_args o) &&
  tdisj (flat_map (fun a => match a with (x, b, IIn) => [(x, b)] | _ => [] end) (o_args o)) (wr_l ps (o_body o)) &&
  forallb (fun x => negb (mem x hdummies)) (o_locals o) &&
  forallb (fun f => mem f (h_imps h)) (callees (o_body o)).

(** constant garbage *)
Definition gstore (k : Z) : store := {| sv := fun _ => k; av := fun _ _ => k |}.

(** * 4. Extraction of internal procedures *)

(** an internal (CONTAINS) subroutine: dummies with array flag, its own local names, body *)
Record member := { m_name : string; m_params : list (string * bool); m_locals : names; m_body : list stmt }.

(** distinct variable occurrences of a body (FindVariables returns a set of symbols; two references
    of an array with different subscripts are different symbols) *)
Definition occ := (string * list expr)%type.
Definition occ_eqb (a b : occ) : bool := String.eqb (fst a) (fst b) && list_expr_eqb (snd a) (snd b).
Fixpoint occ_e (e : expr) : list occ :=
  match e with
  | EInt _ | EPy _ | ELog _ => []
  | EVar x => [(x, [])]
  | ESum _ cs | EProd _ cs | EAnd cs | EOr cs => flat_map occ_e cs
  | EQuot _ a b | EPow _ a b | ECmp _ a b => occ_e a ++ occ_e b
  | ENot a => occ_e a
  | ECall f args => (if is_intrinsic f then [] else [(f, args)]) ++ flat_map occ_e args
  end.
Fixpoint occ_s (st : stmt) : list occ :=
  match st with
  | SAssign x e => (x, []) :: occ_e e
  | SStore a idx e => (a, idx) :: flat_map occ_e idx ++ occ_e e
  | SDo v lo hi stp b =>
      (v, []) :: occ_e lo ++ occ_e hi ++ (match stp with Some e => occ_e e | None => [] end) ++ flat_map occ_s b
  | SWhile c b => occ_e c ++ flat_map occ_s b
  | SIf c t e => occ_e c ++ flat_map occ_s t ++ flat_map occ_s e
  | SCall _ args => flat_map occ_e args
  | SSkip _ => []
  end.
Fixpoint occ_dedup_acc (seen l : list occ) : list occ :=
  match l with
  | [] => []
  | x :: r => if existsb (occ_eqb x) seen then occ_dedup_acc seen r else x :: occ_dedup_acc (x :: seen) r
  end.
Definition occ_dedup (l : list occ) : list occ := occ_dedup_acc [] l.

Definition m_decls (m : member) : names := map fst (m_params m) ++ m_locals m.

(** [vars_to_resolve]: one entry per distinct occurrence of a host variable in the member's body
    (internal.py l.120-131; the result is not de-duplicated by name).  The order is that of a Python
    set, the model sorts. *)
Definition host_refs (h : hostd) (m : member) : names :=
  sort_by (fun x => x)
    (map fst (filter (fun o => mem (fst o) (h_vars h) && negb (mem (fst o) (m_decls m)))
                     (occ_dedup (flat_map occ_s (m_body m))))).

(** the extracted member: the host variables become additional dummies *)
Definition extract_member (h : hostd) (m : member) : member :=
  {| m_name := m_name m; m_params := m_params m ++ map (fun x => (x, is_arr h x)) (host_refs h m);
     m_locals := m_locals m; m_body := m_body m |}.

Fixpoint find_member (ms : list member) (f : string) : option member :=
  match ms with
  | [] => None
  | m :: r => if String.eqb (m_name m) f then Some m else find_member r f
  end.

(** calls in the HOST body get the host variables as (keyword) arguments; calls inside the members
    are not touched (internal.py l.189-199 visit [procedure.body] only) *)
Fixpoint extract_calls (h : hostd) (ms : list member) (st : stmt) : stmt :=
  match st with
  | SDo v lo hi stp b => SDo v lo hi stp (map (extract_calls h ms) b)
  | SWhile c b => SWhile c (map (extract_calls h ms) b)
  | SIf c t e => SIf c (map (extract_calls h ms) t) (map (extract_calls h ms) e)
  | SCall f args =>
      match find_member ms f with
      | Some m => SCall f (args ++ map EVar (host_refs h m))
      | None => st
      end
  | _ => st
  end.

Definition extract_internal (h : hostd) (ms : list member) (body : list stmt) : list stmt * list member :=
  (map (extract_calls h ms) body, map (extract_member h) ms).

(** ** Semantics of a call of an internal procedure.
    [hv]: the host variables visible in the member by host association (the host's variables that the
    member does not redeclare).  Dummies are bound by copy-in/copy-out like in [MiniF.exec]; the member's
    own locals are undefined on entry (garbage [g]).  With [hv = []] and [g = empty_store] this is the
    CALL of [MiniF.exec] ([icall_is_scall]). *)
Definition icall (ps : procs) (g : store) (fuel : nat) (hv : list tn) (params : list (string * bool))
           (body : list stmt) (args : list expr) (s : store) : option store :=
  obind (copy_in s params args (pickT hv s g)) (fun c0 =>
  obind (exec ps fuel body c0) (fun c1 =>
  Some (copy_out c1 params args (pickT hv c1 s)))).

Definition host_visible (h : hostd) (m : member) : list tn :=
  map (fun x => (x, is_arr h x)) (filter (fun x => negb (mem x (m_decls m))) (h_vars h)).
Definition passed (h : hostd) (m : member) : list tn := map (fun x => (x, is_arr h x)) (host_refs h m).

(** "every host variable the member reads or writes is passed", and the usual no-alias conditions
    that make copy-in/copy-out equal to by-reference: the added dummies are distinct from each other
    and from the member's own dummies, and no variable actual of the call is itself host-accessed *)
Definition actual_vars (args : list expr) : names := flat_map (fun e => match e with EVar x => [x] | _ => [] end) args.
Definition host_vars_passed (ps : procs) (h : hostd) (m : member) (args : list expr) : bool :=
  tdisj (ue_l ps (m_body m) ++ wr_l ps (m_body m)) (tdiff (host_visible h m) (passed h m)) &&
  nodupb (host_refs h m) &&
  nodupb (map fst (m_params m)) &&
  disjointb (actual_vars args) (host_refs h m) &&
  Nat.eqb (List.length args) (List.length (m_params m)).

(** pointwise equality of stores *)
Definition store_eq (s1 s2 : store) : Prop := agreeP (fun _ => true) s1 s2.

(** * 5. Comparators for the correspondence *)

Definition intent_eqb (a b : intent) : bool :=
  match a, b with IIn, IIn | IOut, IOut | IInOut, IInOut | INone, INone => true | _, _ => false end.
Fixpoint names_eqb (a b : names) : bool :=
  match a, b with
  | [], [] => true
  | x :: r, y :: q => String.eqb x y && names_eqb r q
  | _, _ => false
  end.
Fixpoint args_eqb (a b : list (string * bool * intent)) : bool :=
  match a, b with
  | [], [] => true
  | (x, f, i) :: r, (y, g, j) :: q => String.eqb x y && Bool.eqb f g && intent_eqb i j && args_eqb r q
  | _, _ => false
  end.

(** what the harness exports of a generated routine: name, dummies (ordered, with array flag and
    intent), the other declared names (ordered), the PARAMETER constants among them, the body *)
Definition routine_out := (string * list (string * bool * intent) * names * names * list stmt)%type.
Definition routine_eqb (o : outlined) (r : routine_out) : bool :=
  let '(n, a, l, c, b) := r in
  String.eqb (o_name o) n && args_eqb (o_args o) a && names_eqb (o_locals o) l && names_eqb (o_consts o) c && stmts_eqb (o_body o) b.
Fixpoint routines_eqb (a : list outlined) (b : list routine_out) : bool :=
  match a, b with
  | [], [] => true
  | x :: r, y :: q => routine_eqb x y && routines_eqb r q
  | _, _ => false
  end.

(** model output vs Loki's output ([None] = KeyError) *)
Definition chk_outline (h : hostd) (sg : sigs) (its : list item) (out : option (list stmt * list routine_out)) : bool :=
  match outline h sg its, out with
  | Some cs, Some (body, rs) => stmts_eqb (caller_stmts cs) body && routines_eqb (new_routines cs) rs
  | None, None => true
  | _, _ => false
  end.

Definition tn_set_eqb (a b : list tn) : bool := tsubset a b && tsubset b a.

(** the class predicates, evaluated on the model's own output, vs the harness' copy of them:
    [dl]: the final set D (None: the pass fails), [comp]: every new routine compiles *)
Definition chk_class (h : hostd) (sg : sigs) (ps : procs) (strict : bool) (hdummies : names) (its : list item)
           (dl : option (list tn)) (comp : bool) : bool :=
  match outline h sg its with
  | Some cs =>
      (match flow ps strict cs [], dl with
       | Some D, Some D' => tn_set_eqb D D'
       | None, None => true
       | _, _ => false
       end) && Bool.eqb (forallb (compilable h ps hdummies) (new_routines cs)) comp
  | None => false
  end.

(** the semantics of the outlined program, evaluated on the model's output from a given store with
    garbage [k], vs the harness' interpreter *)
Definition chk_run (h : hostd) (sg : sigs) (ps : procs) (strict : bool) (k : Z) (fuel : nat) (its : list item)
           (scal0 : list (string * Z)) (cells0 : list (string * list Z * Z))
           (oscal : list string) (ocells : list (string * list Z)) (expect : option (list Z)) : bool :=
  match outline h sg its with
  | Some cs =>
      olist_z_eqb (match exec_c ps strict (gstore k) fuel cs (init_store scal0 cells0) with
                   | Some s => Some (observe s oscal ocells) | None => None end) expect
  | None => false
  end.

Definition member_out := (string * list (string * bool))%type.
Fixpoint params_eqb (a b : list (string * bool)) : bool :=
  match a, b with
  | [], [] => true
  | (x, f) :: r, (y, g) :: q => String.eqb x y && Bool.eqb f g && params_eqb r q
  | _, _ => false
  end.
Fixpoint members_eqb (a : list member) (b : list member_out) : bool :=
  match a, b with
  | [], [] => true
  | m :: r, (n, p) :: q => String.eqb (m_name m) n && params_eqb (m_params m) p && members_eqb r q
  | _, _ => false
  end.

(** extraction: the host body with the extended calls and the extended dummy lists (the harness sorts
    the added dummies / keyword arguments by name, like the model) *)
Definition chk_extract (h : hostd) (ms : list member) (body : list stmt) (out : list stmt * list member_out) : bool :=
  let r := extract_internal h ms body in
  stmts_eqb (fst r) (fst out) && members_eqb (snd r) (snd out).

Definition chk_passed (ps : procs) (h : hostd) (m : member) (args : list expr) (b : bool) : bool :=
  Bool.eqb (host_vars_passed ps h m args) b.
