(** C28 — inlining (loki/transformations/inline).  Definitions only.

    Modelled on the shared MiniF core:
    - [subst_e]/[subst_stmts]: the simultaneous substitution performed by
      [map_call_to_procedure_body] (scalar dummy -> actual expression, array dummy -> actual array
      with the index template of [_map_unbound_dims], clashing callee locals -> [f_v]);
    - [inline_call]/[inline_body]/[inline_all]: [inline_subroutine_calls] / [inline_internal_procedures];
    - [loki_tmpl]: the offset arithmetic of [_map_unbound_dims] *as written* (python truthiness of a literal
      0 lower bound, dimension index of the dummy used for the actual's declared bounds);
    - [inline_sf]: [inline_statement_functions]; [inline_const]: [inline_constant_parameters];
    - [inline_fn_body]: [inline_functions] for nodes with one call (result variable [result_g]);
    - [norm_stmts]: a normalisation of array subscripts to a linear normal form (Loki passes every subscript
      of a mapped array dummy through [simplify]); proved sound in P_C28. *)
From Coq Require Import ZArith List Bool String Ascii.
From LV Require Import Base.Expr Base.MiniF.
Import ListNotations.
Open Scope Z_scope.

(** * small helpers *)
Definition mem (x : string) (l : list string) : bool := existsb (String.eqb x) l.

Fixpoint assoc {A : Type} (l : list (string * A)) (x : string) : option A :=
  match l with
  | [] => None
  | (k, v) :: r => if String.eqb k x then Some v else assoc r x
  end.

Definition intrinsic_name (f : string) : bool :=
  String.eqb f "mod" || String.eqb f "modulo" || String.eqb f "abs" || String.eqb f "min" || String.eqb f "max".

Fixpoint nodupb (l : list string) : bool :=
  match l with [] => true | x :: r => negb (mem x r) && nodupb r end.

(** * 1. linear normal form of subscripts *)
Definition mono := list (string * Z).

Fixpoint madd (x : string) (k : Z) (l : mono) : mono :=
  match l with
  | [] => if k =? 0 then [] else [(x, k)]
  | (y, c) :: r =>
      if String.eqb x y then (if c + k =? 0 then r else (y, c + k) :: r)
      else if String.ltb x y then (if k =? 0 then l else (x, k) :: l)
      else (y, c) :: madd x k r
  end.

Definition poly := (Z * mono)%type.

Definition padd (p q : poly) : poly :=
  (fst p + fst q, fold_right (fun xk acc => madd (fst xk) (snd xk) acc) (snd q) (snd p)).

Definition pscale (c : Z) (p : poly) : poly :=
  if c =? 0 then (0, []) else (c * fst p, map (fun xk => (fst xk, c * snd xk)) (snd p)).

Definition pmul (p q : poly) : option poly :=
  match snd p, snd q with
  | [], _ => Some (pscale (fst p) q)
  | _, [] => Some (pscale (fst q) p)
  | _, _ => None
  end.

Fixpoint lin (e : expr) : option poly :=
  match e with
  | EInt v | EPy v => Some (v, [])
  | EVar x => Some (0, [(x, 1)])
  | ESum _ cs =>
      fold_right (fun c acc => match lin c, acc with Some p, Some q => Some (padd p q) | _, _ => None end)
                 (Some (0, [])) cs
  | EProd _ cs =>
      fold_right (fun c acc => match lin c, acc with Some p, Some q => pmul p q | _, _ => None end)
                 (Some (1, [])) cs
  | _ => None
  end.

Definition msum (rho : string -> Z) (l : mono) : Z :=
  fold_right (fun xk acc => snd xk * rho (fst xk) + acc) 0 l.
Definition peval (rho : string -> Z) (p : poly) : Z := fst p + msum rho (snd p).

Definition emit (p : poly) : expr :=
  ESum false (EInt (fst p) :: map (fun xk => EProd false [EInt (snd xk); EVar (fst xk)]) (snd p)).

(** subscripts (arguments of [ECall], indices of [SStore]) are replaced by their normal form when linear *)
Fixpoint norm_e (e : expr) : expr :=
  match e with
  | ESum p cs => ESum p (map norm_e cs)
  | EProd p cs => EProd p (map norm_e cs)
  | EQuot p a b => EQuot p (norm_e a) (norm_e b)
  | EPow p a b => EPow p (norm_e a) (norm_e b)
  | ECmp o a b => ECmp o (norm_e a) (norm_e b)
  | EAnd cs => EAnd (map norm_e cs)
  | EOr cs => EOr (map norm_e cs)
  | ENot a => ENot (norm_e a)
  | ECall f args => ECall f (map (fun a => match lin a with Some p => emit p | None => norm_e a end) args)
  | _ => e
  end.

Definition norm_i (a : expr) : expr := match lin a with Some p => emit p | None => norm_e a end.

Fixpoint norm_stmt (s : stmt) : stmt :=
  match s with
  | SAssign x e => SAssign x (norm_e e)
  | SStore a idx e => SStore a (map norm_i idx) (norm_e e)
  | SDo v lo hi st b => SDo v (norm_e lo) (norm_e hi) (option_map norm_e st) (map norm_stmt b)
  | SWhile c b => SWhile (norm_e c) (map norm_stmt b)
  | SIf c t e => SIf (norm_e c) (map norm_stmt t) (map norm_stmt e)
  | SCall f args => SCall f (map norm_e args)
  | SSkip l => SSkip l
  end.
Definition norm_stmts (l : list stmt) : list stmt := map norm_stmt l.

(** * 2. substitution *)
Inductive dspec := DOff (o : Z) | DFix (e : expr).

Record smap := { sm_s : list (string * expr); sm_a : list (string * (string * list dspec)) }.

Definition lk_s (m : smap) (x : string) : expr :=
  match assoc (sm_s m) x with Some e => e | None => EVar x end.
Definition lk_a (m : smap) (a : string) : string * list dspec :=
  match assoc (sm_a m) a with Some t => t | None => (a, []) end.

(** subscripts of a mapped array dummy: a range position of the actual consumes the next dummy subscript
    (plus the offset), a scalar subscript of the actual is inserted *)
Fixpoint fill (t : list dspec) (idx : list expr) : list expr :=
  match t with
  | [] => idx
  | DFix e :: r => e :: fill r idx
  | DOff o :: r => match idx with [] => [] | i :: q => ESum false [i; EInt o] :: fill r q end
  end.

Fixpoint subst_e (m : smap) (e : expr) : expr :=
  match e with
  | EVar x => lk_s m x
  | ESum p cs => ESum p (map (subst_e m) cs)
  | EProd p cs => EProd p (map (subst_e m) cs)
  | EQuot p a b => EQuot p (subst_e m a) (subst_e m b)
  | EPow p a b => EPow p (subst_e m a) (subst_e m b)
  | ECmp o a b => ECmp o (subst_e m a) (subst_e m b)
  | EAnd cs => EAnd (map (subst_e m) cs)
  | EOr cs => EOr (map (subst_e m) cs)
  | ENot a => ENot (subst_e m a)
  | ECall f args =>
      if intrinsic_name f then ECall f (map (subst_e m) args)
      else ECall (fst (lk_a m f)) (fill (snd (lk_a m f)) (map (subst_e m) args))
  | _ => e
  end.

Inductive lhs := LVar (x : string) | LElem (a : string) (idx : list expr) | LBad.
Definition lhs_of (e : expr) : lhs :=
  match e with
  | EVar y => LVar y
  | ECall a idx => if intrinsic_name a then LBad else LElem a idx
  | _ => LBad
  end.

(** [None]: the substituted code is not a statement (an expression on a left-hand side) *)
Section SubstStmt.
Variable m : smap.
Fixpoint subst_stmt (s : stmt) : option stmt :=
  let fix go (l : list stmt) : option (list stmt) :=
    match l with
    | [] => Some []
    | x :: r => match subst_stmt x, go r with Some x', Some r' => Some (x' :: r') | _, _ => None end
    end in
  match s with
  | SAssign x e =>
      match lhs_of (lk_s m x) with
      | LVar y => Some (SAssign y (subst_e m e))
      | LElem a idx => Some (SStore a idx (subst_e m e))
      | LBad => None
      end
  | SStore a idx e =>
      Some (SStore (fst (lk_a m a)) (fill (snd (lk_a m a)) (map (subst_e m) idx)) (subst_e m e))
  | SDo v lo hi st b =>
      match lhs_of (lk_s m v), go b with
      | LVar y, Some b' => Some (SDo y (subst_e m lo) (subst_e m hi) (option_map (subst_e m) st) b')
      | _, _ => None
      end
  | SWhile c b => match go b with Some b' => Some (SWhile (subst_e m c) b') | None => None end
  | SIf c t e => match go t, go e with Some t', Some e' => Some (SIf (subst_e m c) t' e') | _, _ => None end
  | SCall f args => Some (SCall f (map (subst_e m) args))
  | SSkip l => Some (SSkip l)
  end.

Fixpoint subst_stmts (l : list stmt) : option (list stmt) :=
  match l with
  | [] => Some []
  | x :: r => match subst_stmt x, subst_stmts r with Some x', Some r' => Some (x' :: r') | _, _ => None end
  end.
End SubstStmt.

(** * 3. the offset arithmetic of [_map_unbound_dims] *)
Inductive secdim := SdFix (e : expr) | SdRange (lo : option Z).

(** what Loki computes for the [i]-th subscript of the dummy: the declared lower bound and the subscript of the
    actual are both looked up at position [i] of the *actual*; a literal lower bound 0 of a section is falsy *)
Definition loki_off (Lv Ld : list Z) (dims : list secdim) (i : nat) : Z :=
  match nth i dims (SdFix (EInt 0)) with
  | SdRange (Some lo) => if lo =? 0 then nth i Lv 1 - nth i Ld 1 else lo - nth i Ld 1
  | _ => nth i Lv 1 - nth i Ld 1
  end.

Fixpoint loki_tmpl_aux (Lv Ld : list Z) (all : list secdim) (r : nat) (dims : list secdim) : list dspec :=
  match dims with
  | [] => []
  | SdFix e :: q => DFix e :: loki_tmpl_aux Lv Ld all r q
  | SdRange _ :: q => DOff (loki_off Lv Ld all r) :: loki_tmpl_aux Lv Ld all (S r) q
  end.
Definition loki_tmpl (Lv Ld : list Z) (dims : list secdim) : list dspec := loki_tmpl_aux Lv Ld dims 0 dims.

(** Fortran: subscript [i] of the [r]-th dummy dimension is element [lo + (i - Ld_r)] of the [p]-th dimension of
    the actual, [lo] = lower bound of the section, or the declared lower bound of that dimension *)
Definition true_off (Lv Ld : list Z) (p r : nat) (lo : option Z) : Z :=
  (match lo with Some l => l | None => nth p Lv 1 end) - nth r Ld 1.

Fixpoint true_tmpl_aux (Lv Ld : list Z) (p r : nat) (dims : list secdim) : list dspec :=
  match dims with
  | [] => []
  | SdFix e :: q => DFix e :: true_tmpl_aux Lv Ld (S p) r q
  | SdRange lo :: q => DOff (true_off Lv Ld p r lo) :: true_tmpl_aux Lv Ld (S p) (S r) q
  end.
Definition true_tmpl (Lv Ld : list Z) (dims : list secdim) : list dspec := true_tmpl_aux Lv Ld 0 0 dims.

(** class on which the two agree: the ranges of the actual come first, and a literal lower bound 0 only on a
    dimension declared with lower bound 0 *)
Fixpoint dims_ok_aux (Lv : list Z) (p : nat) (seenfix : bool) (dims : list secdim) : bool :=
  match dims with
  | [] => true
  | SdFix _ :: q => dims_ok_aux Lv (S p) true q
  | SdRange lo :: q =>
      negb seenfix && (match lo with Some l => negb (l =? 0) || (nth p Lv 1 =? 0) | None => true end)
      && dims_ok_aux Lv (S p) seenfix q
  end.
Definition dims_ok (Lv : list Z) (dims : list secdim) : bool := dims_ok_aux Lv 0 false dims.

(** whole-array actual: one unbounded range per dimension *)
Definition whole_dims (rank : nat) : list secdim := repeat (SdRange None) rank.

Definition zero_offs (t : list dspec) : bool :=
  forallb (fun d => match d with DOff o => o =? 0 | DFix _ => false end) t.
(** an all-zero offset template is written [[]] (identity): Loki emits [simplify(i + 0)] *)
Definition tmpl_clean (t : list dspec) : list dspec := if zero_offs t then [] else t.

(** * 4. inlining a subroutine call *)
Record callee := {
  ce_name : string;
  ce_params : list (string * bool);      (* dummy, is-array *)
  ce_locals : list string;               (* local scalars, declaration order *)
  ce_larrs : list string;                (* local arrays *)
  ce_lbs : list (string * list Z);       (* declared lower bounds of the array dummies *)
  ce_body : list stmt }.

Definition ren (f v : string) : string := String.append f (String.append "_" v).

Definition rename_s (cvars : list string) (ce : callee) : list (string * expr) :=
  flat_map (fun v => if mem v cvars then [(v, EVar (ren (ce_name ce) v))] else []) (ce_locals ce).
Definition rename_a (cvars : list string) (ce : callee) : list (string * (string * list dspec)) :=
  flat_map (fun v => if mem v cvars then [(v, (ren (ce_name ce) v, []))] else []) (ce_larrs ce).

Definition hoisted (cvars : list string) (ce : callee) : list string :=
  map (fun v => if mem v cvars then ren (ce_name ce) v else v) (ce_locals ce ++ ce_larrs ce).

Fixpoint argmap_s (ps : list (string * bool)) (args : list expr) : list (string * expr) :=
  match ps, args with
  | (d, false) :: r, e :: q => (d, e) :: argmap_s r q
  | (_, true) :: r, _ :: q => argmap_s r q
  | _, _ => []
  end.

(** source-level actual arguments: an expression, or an array section *)
Inductive actual := AExp (e : expr) | ASec (a : string) (dims : list secdim).

Definition lbs_of (l : list (string * list Z)) (a : string) : list Z :=
  match assoc l a with Some x => x | None => [] end.

Fixpoint argmap_a (lbc : list (string * list Z)) (ce : callee) (ps : list (string * bool)) (acts : list actual)
  : option (list (string * (string * list dspec))) :=
  match ps, acts with
  | [], [] => Some []
  | (d, true) :: r, AExp (EVar a) :: q =>
      match argmap_a lbc ce r q with
      | Some rest =>
          let Ld := lbs_of (ce_lbs ce) d in
          Some ((d, (a, tmpl_clean (loki_tmpl (lbs_of lbc a) Ld (whole_dims (List.length Ld))))) :: rest)
      | None => None
      end
  | (d, true) :: r, ASec a dims :: q =>
      match argmap_a lbc ce r q with
      | Some rest => Some ((d, (a, tmpl_clean (loki_tmpl (lbs_of lbc a) (lbs_of (ce_lbs ce) d) dims))) :: rest)
      | None => None
      end
  | (d, false) :: r, AExp _ :: q => argmap_a lbc ce r q
  | _, _ => None
  end.

Definition scalar_args (acts : list actual) : list expr :=
  map (fun a => match a with AExp e => e | ASec a _ => EVar a end) acts.

Definition call_smap (cvars : list string) (ce : callee) (amap : list (string * (string * list dspec)))
           (args : list expr) : smap :=
  {| sm_s := argmap_s (ce_params ce) args ++ rename_s cvars ce;
     sm_a := amap ++ rename_a cvars ce |}.

Definition inline_call_m (cvars : list string) (ce : callee) (amap : list (string * (string * list dspec)))
           (args : list expr) : option (list stmt) :=
  if Nat.eqb (List.length args) (List.length (ce_params ce))
  then subst_stmts (call_smap cvars ce amap args) (ce_body ce)
  else None.

Definition inline_call_src (cvars : list string) (lbc : list (string * list Z)) (ce : callee) (acts : list actual)
  : option (list stmt) :=
  match argmap_a lbc ce (ce_params ce) acts with
  | Some amap => inline_call_m cvars ce amap (scalar_args acts)
  | None => None
  end.

Definition inline_call (cvars : list string) (lbc : list (string * list Z)) (ce : callee) (args : list expr)
  : option (list stmt) := inline_call_src cvars lbc ce (map AExp args).

(** replace every call to [ce] inside (nested) statements *)
Fixpoint inline_stmt (cvars : list string) (lbc : list (string * list Z)) (ce : callee) (s : stmt)
  : option (list stmt) :=
  let fix go (l : list stmt) : option (list stmt) :=
    match l with
    | [] => Some []
    | x :: r => match inline_stmt cvars lbc ce x, go r with Some a, Some b => Some (a ++ b) | _, _ => None end
    end in
  match s with
  | SCall g args => if String.eqb g (ce_name ce) then inline_call cvars lbc ce args else Some [s]
  | SDo v lo hi st b => match go b with Some b' => Some [SDo v lo hi st b'] | None => None end
  | SWhile c b => match go b with Some b' => Some [SWhile c b'] | None => None end
  | SIf c t e => match go t, go e with Some t', Some e' => Some [SIf c t' e'] | _, _ => None end
  | _ => Some [s]
  end.

Fixpoint inline_body (cvars : list string) (lbc : list (string * list Z)) (ce : callee) (l : list stmt)
  : option (list stmt) :=
  match l with
  | [] => Some []
  | x :: r => match inline_stmt cvars lbc ce x, inline_body cvars lbc ce r with
              | Some a, Some b => Some (a ++ b) | _, _ => None end
  end.

(** several callees, in Loki's processing order; the caller's variables grow by the hoisted locals *)
Fixpoint inline_all (cvars : list string) (lbc : list (string * list Z)) (ces : list callee) (l : list stmt)
  : option (list stmt * list string) :=
  match ces with
  | [] => Some (l, cvars)
  | ce :: r =>
      match inline_body cvars lbc ce l with
      | Some l' => inline_all (cvars ++ hoisted cvars ce) lbc r l'
      | None => None
      end
  end.

(** * 5. call semantics with lower-bound offsets (coincides with MiniF's [SCall] for empty offsets) *)
Fixpoint shiftz (offs idx : list Z) : list Z :=
  match offs with
  | [] => idx
  | o :: q => match idx with [] => [] | i :: r => (i + o) :: shiftz q r end
  end.

Definition offs_of (t : list dspec) : list Z :=
  flat_map (fun d => match d with DOff o => [o] | DFix _ => [] end) t.
Definition all_off (t : list dspec) : bool := forallb (fun d => match d with DOff _ => true | DFix _ => false end) t.

Fixpoint copy_in_o (caller : store) (params : list (string * bool)) (args : list expr)
         (offs : string -> list Z) (callee : store) : option store :=
  match params, args with
  | [], [] => Some callee
  | (d, true) :: ps, EVar a :: r =>
      copy_in_o caller ps r offs (set_arr d (fun idx => av caller a (shiftz (offs d) idx)) callee)
  | (d, false) :: ps, e :: r =>
      match evalZ (env_st caller) e with
      | Some v => copy_in_o caller ps r offs (set_sv d v callee)
      | None => None
      end
  | _, _ => None
  end.

Fixpoint copy_out_o (callee : store) (params : list (string * bool)) (args : list expr)
         (offs : string -> list Z) (caller : store) : store :=
  match params, args with
  | (d, true) :: ps, EVar a :: r =>
      copy_out_o callee ps r offs (set_arr a (fun j => av callee d (shiftz (map Z.opp (offs d)) j)) caller)
  | (d, false) :: ps, EVar x :: r => copy_out_o callee ps r offs (set_sv x (sv callee d) caller)
  | _ :: ps, _ :: r => copy_out_o callee ps r offs caller
  | _, _ => caller
  end.

Definition call_sem (ps : procs) (fuel : nat) (p : proc) (offs : string -> list Z) (args : list expr) (s : store)
  : option store :=
  obind (copy_in_o s (p_params p) args offs empty_store) (fun s0 =>
  obind (exec ps fuel (p_body p) s0) (fun s1 => Some (copy_out_o s1 (p_params p) args offs s))).

Definition proc_of (ce : callee) : proc := {| p_params := ce_params ce; p_body := ce_body ce |}.

(** * 6. the class of calls on which inlining is proved to preserve behaviour *)
(** [e_ok pv pa e]: every scalar variable of [e] satisfies [pv], every array read satisfies [pa] *)
Fixpoint e_ok (pv pa : string -> bool) (e : expr) : bool :=
  match e with
  | EVar x => pv x
  | ESum _ cs | EProd _ cs | EAnd cs | EOr cs => forallb (e_ok pv pa) cs
  | EQuot _ a b | EPow _ a b | ECmp _ a b => e_ok pv pa a && e_ok pv pa b
  | ENot a => e_ok pv pa a
  | ECall f cs => (intrinsic_name f || pa f) && forallb (e_ok pv pa) cs
  | _ => true
  end.

Definition oe_ok (pv pa : string -> bool) (o : option expr) : bool :=
  match o with Some e => e_ok pv pa e | None => true end.

Fixpoint wr_s (s : stmt) : list string :=
  match s with
  | SAssign x _ => [x]
  | SDo v _ _ _ b => v :: flat_map wr_s b
  | SWhile _ b => flat_map wr_s b
  | SIf _ t e => flat_map wr_s t ++ flat_map wr_s e
  | SCall _ args => flat_map (fun a => match a with EVar x => [x] | _ => [] end) args
  | _ => []
  end.
Fixpoint wr_a (s : stmt) : list string :=
  match s with
  | SStore a _ _ => [a]
  | SDo _ _ _ _ b | SWhile _ b => flat_map wr_a b
  | SIf _ t e => flat_map wr_a t ++ flat_map wr_a e
  | SCall _ args => flat_map (fun a => match a with EVar x => [x] | _ => [] end) args
  | _ => []
  end.
Definition wrs (l : list stmt) : list string := flat_map wr_s l.
Definition wra (l : list stmt) : list string := flat_map wr_a l.

Fixpoint has_call (s : stmt) : bool :=
  match s with
  | SCall _ _ => true
  | SDo _ _ _ _ b | SWhile _ b => existsb has_call b
  | SIf _ t e => existsb has_call t || existsb has_call e
  | _ => false
  end.

Section DA.
  (** definite assignment: [V] = scalars known to hold a value; locals must be assigned before they are read
      (assignments inside branches and loop bodies do not count afterwards) *)
  Variables (Vall A : list string).
  Definition okv (V : list string) : string -> bool := fun y => mem y V && mem y Vall.
  Definition oka : string -> bool := fun a => mem a A.

  Fixpoint da_stmt (V : list string) (s : stmt) : option (list string) :=
    let fix go (V : list string) (l : list stmt) : option (list string) :=
      match l with
      | [] => Some V
      | x :: r => match da_stmt V x with Some V1 => go V1 r | None => None end
      end in
    match s with
    | SAssign x e => if e_ok (okv V) oka e && mem x Vall then Some (x :: V) else None
    | SStore a idx e => if mem a A && forallb (e_ok (okv V) oka) idx && e_ok (okv V) oka e then Some V else None
    | SDo v lo hi st b =>
        if e_ok (okv V) oka lo && e_ok (okv V) oka hi && oe_ok (okv V) oka st && mem v Vall
        then match go (v :: V) b with Some _ => Some (v :: V) | None => None end
        else None
    | SWhile c b => if e_ok (okv V) oka c then match go V b with Some _ => Some V | None => None end else None
    | SIf c t e =>
        if e_ok (okv V) oka c
        then match go V t, go V e with Some _, Some _ => Some V | _, _ => None end
        else None
    | SCall _ _ => None
    | SSkip _ => Some V
    end.

  Fixpoint da_stmts (V : list string) (l : list stmt) : option (list string) :=
    match l with
    | [] => Some V
    | x :: r => match da_stmt V x with Some V1 => da_stmts V1 r | None => None end
    end.
End DA.

Section Cond.
  Variables (m : smap) (Vall A : list string).
  (** written scalars are mapped to variables ... *)
  Definition c1 (W : list string) : bool :=
    forallb (fun x => match lk_s m x with EVar _ => true | _ => false end) W.
  (** ... that occur in the image of no other scalar *)
  Definition c2 (W : list string) : bool :=
    forallb (fun x => match lk_s m x with
                      | EVar tx => forallb (fun y => String.eqb y x
                                     || e_ok (fun z => negb (String.eqb z tx)) (fun _ => true) (lk_s m y)) Vall
                      | _ => false end) W.
  (** written arrays are mapped to arrays that no other array is mapped to and that no actual reads *)
  Definition c3 (WA : list string) : bool :=
    forallb (fun a => forallb (fun b => String.eqb b a || negb (String.eqb (fst (lk_a m b)) (fst (lk_a m a)))) A
                      && forallb (fun y => e_ok (fun _ => true) (fun b => negb (String.eqb b (fst (lk_a m a)))) (lk_s m y)) Vall) WA.
  Definition c4 : bool :=
    forallb (fun a => all_off (snd (lk_a m a)) && negb (intrinsic_name a) && negb (intrinsic_name (fst (lk_a m a)))) A.
End Cond.

Definition sdummies (ce : callee) : list string :=
  flat_map (fun p : string * bool => if snd p then [] else [fst p]) (ce_params ce).
Definition adummies (ce : callee) : list string :=
  flat_map (fun p : string * bool => if snd p then [fst p] else []) (ce_params ce).

Fixpoint actual_vars (ps : list (string * bool)) (args : list expr) : list string :=
  match ps, args with
  | (_, false) :: r, EVar x :: q => x :: actual_vars r q
  | _ :: r, _ :: q => actual_vars r q
  | _, _ => []
  end.
Fixpoint actual_arrs (ps : list (string * bool)) (args : list expr) : list string :=
  match ps, args with
  | (_, true) :: r, EVar x :: q => x :: actual_arrs r q
  | _ :: r, _ :: q => actual_arrs r q
  | _, _ => []
  end.
Fixpoint arr_args_ok (ps : list (string * bool)) (args : list expr) : bool :=
  match ps, args with
  | [], [] => true
  | (_, true) :: r, EVar _ :: q => arr_args_ok r q
  | (_, false) :: r, _ :: q => arr_args_ok r q
  | _, _ => false
  end.

(** the template of every array dummy names the array that is actually passed *)
Fixpoint amap_ok (amap : list (string * (string * list dspec))) (ps : list (string * bool)) (args : list expr) : bool :=
  match ps, args with
  | (d, true) :: r, EVar a :: q =>
      (match assoc amap d with Some t => String.eqb (fst t) a | None => false end) && amap_ok amap r q
  | _ :: r, _ :: q => amap_ok amap r q
  | _, _ => true
  end.

Definition hoisted_s (cvars : list string) (ce : callee) : list string :=
  map (fun v => if mem v cvars then ren (ce_name ce) v else v) (ce_locals ce).

(** the decidable class: [amap] as computed by [argmap_a] (or any all-offset template) *)
Definition inlinable_m (cvars : list string) (ce : callee) (amap : list (string * (string * list dspec)))
           (args : list expr) : bool :=
  let m := call_smap cvars ce amap args in
  let Vall := sdummies ce ++ ce_locals ce in
  let A := adummies ce in
  let body := ce_body ce in
  Nat.eqb (List.length args) (List.length (ce_params ce))
  && arr_args_ok (ce_params ce) args
  && nodupb (map fst (ce_params ce) ++ ce_locals ce)
  && (match ce_larrs ce with [] => true | _ => false end)
  && negb (existsb has_call body)
  && c1 m (wrs body) && c2 m Vall (wrs body) && c3 m Vall A (wra body) && c4 m A
  && amap_ok amap (ce_params ce) args
  && (match da_stmts Vall A (sdummies ce) body with Some _ => true | None => false end)
  && (match inline_call_m cvars ce amap args with
      | Some q => forallb (fun z => mem z (actual_vars (ce_params ce) args) || mem z (hoisted_s cvars ce)) (wrs q)
                  && forallb (fun a => mem a (actual_arrs (ce_params ce) args)) (wra q)
      | None => false end).

Definition amap_offs (amap : list (string * (string * list dspec))) : string -> list Z :=
  fun d => match assoc amap d with Some t => offs_of (snd t) | None => [] end.

(** whole-array actuals with equal declared lower bounds: MiniF's own [SCall] semantics *)
Fixpoint plain_amap (ps : list (string * bool)) (args : list expr) : list (string * (string * list dspec)) :=
  match ps, args with
  | (d, true) :: r, EVar a :: q => (d, (a, [])) :: plain_amap r q
  | _ :: r, _ :: q => plain_amap r q
  | _, _ => []
  end.

Definition inlinable (cvars : list string) (ce : callee) (args : list expr) : bool :=
  inlinable_m cvars ce (plain_amap (ce_params ce) args) args.
Definition inline_plain (cvars : list string) (ce : callee) (args : list expr) : option (list stmt) :=
  inline_call_m cvars ce (plain_amap (ce_params ce) args) args.

(** * 7. statement functions and constant parameters (expression substitution) *)
Record sfdef := { sf_params : list string; sf_body : expr }.

Fixpoint inline_sf (fuel : nat) (defs : list (string * sfdef)) (e : expr) : expr :=
  match fuel with
  | O => e
  | S k =>
    match e with
    | ECall f args =>
        let args' := map (inline_sf k defs) args in
        match assoc defs f with
        | Some d => if intrinsic_name f then ECall f args'
                    else inline_sf k defs (subst_e {| sm_s := combine (sf_params d) args'; sm_a := [] |} (sf_body d))
        | None => ECall f args'
        end
    | ESum p cs => ESum p (map (inline_sf k defs) cs)
    | EProd p cs => EProd p (map (inline_sf k defs) cs)
    | EQuot p a b => EQuot p (inline_sf k defs a) (inline_sf k defs b)
    | EPow p a b => EPow p (inline_sf k defs a) (inline_sf k defs b)
    | ECmp o a b => ECmp o (inline_sf k defs a) (inline_sf k defs b)
    | EAnd cs => EAnd (map (inline_sf k defs) cs)
    | EOr cs => EOr (map (inline_sf k defs) cs)
    | ENot a => ENot (inline_sf k defs a)
    | _ => e
    end
  end.

Fixpoint map_stmt_e (g gi : expr -> expr) (s : stmt) : stmt :=
  match s with
  | SAssign x e => SAssign x (g e)
  | SStore a idx e => SStore a (map gi idx) (g e)
  | SDo v lo hi st b => SDo v (g lo) (g hi) (option_map g st) (map (map_stmt_e g gi) b)
  | SWhile c b => SWhile (g c) (map (map_stmt_e g gi) b)
  | SIf c t e => SIf (g c) (map (map_stmt_e g gi) t) (map (map_stmt_e g gi) e)
  | SCall f args => SCall f (map g args)
  | SSkip l => SSkip l
  end.

Definition sf_fuel : nat := 24.
Definition inline_sf_stmts (defs : list (string * sfdef)) (l : list stmt) : list stmt :=
  map (map_stmt_e (inline_sf sf_fuel defs) (inline_sf sf_fuel defs)) l.

(** environment in which the statement functions mean their bodies *)
Definition upd_env (rho : env) (ps : list string) (vs : list Z) : env :=
  {| ev_var := fun y => match assoc (combine ps vs) y with Some v => v | None => ev_var rho y end;
     ev_fun := ev_fun rho |}.

Definition inline_const (cmap : list (string * expr)) (l : list stmt) : option (list stmt) :=
  subst_stmts {| sm_s := cmap; sm_a := [] |} l.

(** * 8. member / elemental functions: one call per node, result variable [result_g] *)
Fixpoint count_call (g : string) (e : expr) : nat :=
  match e with
  | ESum _ cs | EProd _ cs | EAnd cs | EOr cs => fold_right (fun c a => count_call g c + a)%nat O cs
  | EQuot _ a b | EPow _ a b | ECmp _ a b => (count_call g a + count_call g b)%nat
  | ENot a => count_call g a
  | ECall f cs => ((if String.eqb f g then 1 else 0) + fold_right (fun c a => count_call g c + a)%nat O cs)%nat
  | _ => O
  end.

Fixpoint find_call (g : string) (e : expr) : option (list expr) :=
  let fix go (l : list expr) : option (list expr) :=
    match l with [] => None | x :: r => match find_call g x with Some a => Some a | None => go r end end in
  match e with
  | ESum _ cs | EProd _ cs | EAnd cs | EOr cs => go cs
  | EQuot _ a b | EPow _ a b | ECmp _ a b => match find_call g a with Some x => Some x | None => find_call g b end
  | ENot a => find_call g a
  | ECall f cs => if String.eqb f g then Some cs else go cs
  | _ => None
  end.

Fixpoint repl_call (g res : string) (e : expr) : expr :=
  match e with
  | ESum p cs => ESum p (map (repl_call g res) cs)
  | EProd p cs => EProd p (map (repl_call g res) cs)
  | EQuot p a b => EQuot p (repl_call g res a) (repl_call g res b)
  | EPow p a b => EPow p (repl_call g res a) (repl_call g res b)
  | ECmp o a b => ECmp o (repl_call g res a) (repl_call g res b)
  | EAnd cs => EAnd (map (repl_call g res) cs)
  | EOr cs => EOr (map (repl_call g res) cs)
  | ENot a => ENot (repl_call g res a)
  | ECall f cs => if String.eqb f g then EVar res else ECall f (map (repl_call g res) cs)
  | _ => e
  end.

Definition res_name (g : string) : string := String.append "result_" g.

(** the function seen as a subroutine with the result variable as an additional (last) dummy *)
Definition fn_as_sub (ce : callee) : callee :=
  {| ce_name := ce_name ce; ce_params := ce_params ce ++ [(ce_name ce, false)];
     ce_locals := ce_locals ce; ce_larrs := ce_larrs ce; ce_lbs := ce_lbs ce; ce_body := ce_body ce |}.

(** the expressions evaluated by the node itself (not by nested statements) *)
Definition node_exprs (s : stmt) : list expr :=
  match s with
  | SAssign _ e => [e]
  | SStore _ idx e => idx ++ [e]
  | SDo _ lo hi st _ => lo :: hi :: match st with Some e => [e] | None => [] end
  | SWhile c _ => [c]
  | SIf c _ _ => [c]
  | SCall _ args => args
  | SSkip _ => []
  end.

Definition first_call (g : string) (es : list expr) : option (list expr) :=
  fold_right (fun e acc => match find_call g e with Some a => Some a | None => acc end) None es.

Fixpoint inline_fn_stmt (cvars : list string) (lbc : list (string * list Z)) (ce : callee) (s : stmt)
  : option (list stmt) :=
  let g := ce_name ce in
  let fix go (l : list stmt) : option (list stmt) :=
    match l with
    | [] => Some []
    | x :: r => match inline_fn_stmt cvars lbc ce x, go r with Some a, Some b => Some (a ++ b) | _, _ => None end
    end in
  let rp := repl_call g (res_name g) in
  let inner : option stmt :=
    match s with
    | SDo v lo hi st b => match go b with Some b' => Some (SDo v (rp lo) (rp hi) (option_map rp st) b') | None => None end
    | SWhile c b => match go b with Some b' => Some (SWhile (rp c) b') | None => None end
    | SIf c t e => match go t, go e with Some t', Some e' => Some (SIf (rp c) t' e') | _, _ => None end
    | _ => Some (map_stmt_e rp rp s)
    end in
  let n := fold_right (fun e a => count_call g e + a)%nat O (node_exprs s) in
  match inner with
  | None => None
  | Some s' =>
      match n with
      | O => Some [s']
      | S O =>
          match first_call g (node_exprs s) with
          | Some args =>
              match inline_call cvars lbc (fn_as_sub ce) (args ++ [EVar (res_name g)]) with
              | Some pre => Some (pre ++ [s'])
              | None => None
              end
          | None => None
          end
      | _ => None
      end
  end.

Fixpoint inline_fn_body (cvars : list string) (lbc : list (string * list Z)) (ce : callee) (l : list stmt)
  : option (list stmt) :=
  match l with
  | [] => Some []
  | x :: r => match inline_fn_stmt cvars lbc ce x, inline_fn_body cvars lbc ce r with
              | Some a, Some b => Some (a ++ b) | _, _ => None end
  end.

(** class for constant inlining: [Vall] = all scalar names (parameters included), [A] = all arrays of the body;
    no parameter and no variable of an initialiser is assigned *)
Definition const_ok (cmap : list (string * expr)) (Vall A : list string) (body : list stmt) : bool :=
  let m := {| sm_s := cmap; sm_a := [] |} in
  c1 m (wrs body) && c2 m Vall (wrs body) && c3 m Vall A (wra body) && c4 m A
  && (match da_stmts Vall A Vall body with Some _ => true | None => false end).

(** * 9. comparators used by the correspondence *)
Definition set_incl (a b : list string) : bool := forallb (fun x => mem x b) a.
Definition set_eqb (a b : list string) : bool := set_incl a b && set_incl b a.

Definition chk_stmts (model : option (list stmt)) (impl : list stmt) : bool :=
  match model with Some q => stmts_eqb (norm_stmts q) (norm_stmts impl) | None => false end.

(** subroutine inlining: body and the set of newly declared (hoisted) variables *)
Definition chk_inline (cvars : list string) (lbc : list (string * list Z)) (ces : list callee)
           (pre post : list stmt) (newvars : list string) : bool :=
  match inline_all cvars lbc ces pre with
  | Some (q, cv) => stmts_eqb (norm_stmts q) (norm_stmts post) && set_eqb (skipn (List.length cvars) cv) newvars
  | None => false
  end.

(** one call with source-level actuals (sections), spliced between [before] and [after] *)
Definition chk_inline_src (cvars : list string) (lbc : list (string * list Z)) (ce : callee) (acts : list actual)
           (before after post : list stmt) : bool :=
  match inline_call_src cvars lbc ce acts with
  | Some q => stmts_eqb (norm_stmts (before ++ q ++ after)) (norm_stmts post)
  | None => false
  end.

Definition chk_sf (defs : list (string * sfdef)) (pre post : list stmt) : bool :=
  stmts_eqb (inline_sf_stmts defs pre) post.

Definition chk_const (cmap : list (string * expr)) (pre post : list stmt) : bool :=
  match inline_const cmap pre with Some q => stmts_eqb q post | None => false end.

Definition chk_fn (cvars : list string) (lbc : list (string * list Z)) (ce : callee) (pre post : list stmt)
           (newvars : list string) : bool :=
  match inline_fn_body cvars lbc ce pre with
  | Some q => stmts_eqb (norm_stmts q) (norm_stmts post)
              && set_eqb (hoisted cvars ce ++ [res_name (ce_name ce)]) newvars
  | None => false
  end.

(** Loki raised / produced a non-statement: the model must refuse too *)
Definition chk_inline_none (cvars : list string) (lbc : list (string * list Z)) (ces : list callee) (pre : list stmt) : bool :=
  match inline_all cvars lbc ces pre with Some _ => false | None => true end.

(** * 10. witnesses (F10) *)
Open Scope string_scope.
Definition f10_callee : callee :=
  {| ce_name := "f"; ce_params := [("a", false); ("b", false); ("c", false)]; ce_locals := []; ce_larrs := [];
     ce_lbs := []; ce_body := [SAssign "b" (EInt 0); SAssign "c" (EVar "a")] |}.
Definition f10_args : list expr := [ESum false [EVar "x"; EInt 1]; EVar "x"; EVar "y"].
Definition f10_store : store := init_store [("x", 5); ("y", 7)] [].
