(** C37 — single-column (SCC) pipelines: a VERIFIED RELATION (translation validation), not a model of the pipeline.

    On the shared MiniF core:
    - the SCC class ([chk_out]/[chk_in]): every access to a horizontal array uses exactly the horizontal index [h] in the
      first position, every store goes to a horizontal array, scalars assigned inside horizontal loops ([L]) are
      iteration-local (definitely assigned before they are read in each iteration: a forward "definitely assigned"
      analysis [chk_in]), everything outside horizontal loops is uniform (reads neither [h], nor [L], nor horizontal arrays);
    - [project]: the per-column program (horizontal loops deleted, bodies kept, comment lines dropped);
    - [dem_*]: demotion of a horizontal temporary that is only accessed as [t(h)] to the scalar [t];
    - the validator [V] used by the tie on Loki's real output. *)
From Coq Require Import ZArith List Bool String.
From LV Require Import Base.Expr Base.MiniF.
Import ListNotations.
Open Scope Z_scope.

Definition mem (x : string) (l : list string) : bool := existsb (String.eqb x) l.

(** context of the class: horizontal index, names of the two bound variables, horizontal arrays, iteration-local scalars *)
Record ctx := { k_h : string; k_lo : string; k_hi : string; k_H : list string; k_L : list string }.

Definition wf_ctx (k : ctx) : bool :=
  negb (mem (k_h k) (k_L k)) && negb (mem (k_lo k) (k_L k)) && negb (mem (k_hi k) (k_L k)) &&
  negb (String.eqb (k_lo k) (k_h k)) && negb (String.eqb (k_hi k) (k_h k)).

Definition is_var (x : string) (e : expr) : bool := match e with EVar y => String.eqb y x | _ => false end.
Definition head_is (x : string) (l : list expr) : bool := match l with e :: _ => is_var x e | [] => false end.

(** [ok_e k inm D e]: the expression may be evaluated in mode [inm] (inside a horizontal iteration) when the local
    scalars in [D] have been assigned.  With [inm = false] and [D = []] this is "uniform". *)
Fixpoint ok_e (k : ctx) (inm : bool) (D : list string) (e : expr) : bool :=
  match e with
  | EInt _ | EPy _ | ELog _ => true
  | EVar x => if String.eqb x (k_h k) then inm else negb (mem x (k_L k)) || mem x D
  | ESum _ cs | EProd _ cs | EAnd cs | EOr cs => forallb (ok_e k inm D) cs
  | EQuot _ a b | EPow _ a b | ECmp _ a b => ok_e k inm D a && ok_e k inm D b
  | ENot a => ok_e k inm D a
  | ECall f args => (if mem f (k_H k) then inm && head_is (k_h k) args else true) && forallb (ok_e k inm D) args
  end.

Definition ok_oe (k : ctx) (inm : bool) (D : list string) (o : option expr) : bool :=
  match o with None => true | Some e => ok_e k inm D e end.

Definition inter (a b : list string) : list string := filter (fun x => mem x b) a.

(** inside a horizontal iteration: definitely-assigned analysis; [None] = outside the class.
    [calls]: CALL statements are accepted syntactically (they are outside the proved class). *)
Definition is_some {A} (o : option A) : bool := match o with Some _ => true | None => false end.

Section Checks.
Variable k : ctx.
Variable calls : bool.

Fixpoint chk_in_s (D : list string) (s : stmt) {struct s} : option (list string) :=
  let fix go (D : list string) (l : list stmt) {struct l} : option (list string) :=
    match l with
    | [] => Some D
    | x :: r => match chk_in_s D x with Some D1 => go D1 r | None => None end
    end in
  match s with
  | SAssign x e => if mem x (k_L k) && ok_e k true D e then Some (x :: D) else None
  | SStore a idx e =>
      if mem a (k_H k) && head_is (k_h k) idx && forallb (ok_e k true D) idx && ok_e k true D e then Some D else None
  | SDo v lo hi st b =>
      if mem v (k_L k) && ok_e k true D lo && ok_e k true D hi && ok_oe k true D st then
        match go (v :: D) b with Some _ => Some (v :: D) | None => None end
      else None
  | SIf c t e =>
      if ok_e k true D c then
        match go D t, go D e with Some Dt, Some De => Some (inter Dt De) | _, _ => None end
      else None
  | SSkip _ => Some D
  | SWhile _ _ => None
  | SCall _ args => if calls && forallb (ok_e k true D) args then Some D else None
  end.

Fixpoint chk_in (D : list string) (l : list stmt) {struct l} : option (list string) :=
  match l with
  | [] => Some D
  | x :: r => match chk_in_s D x with Some D1 => chk_in D1 r | None => None end
  end.

(** outside horizontal loops *)
Fixpoint chk_out_s (s : stmt) {struct s} : bool :=
  match s with
  | SAssign x e =>
      (* the target may be a local scalar: its value outside horizontal loops is never relied upon *)
      negb (String.eqb x (k_h k)) && negb (String.eqb x (k_lo k)) && negb (String.eqb x (k_hi k)) && ok_e k false [] e
  | SStore _ _ _ => false
  | SDo v lo hi st b =>
      if String.eqb v (k_h k) then
        is_var (k_lo k) lo && is_var (k_hi k) hi && (match st with None => true | Some _ => false end) &&
        is_some (chk_in [] b)
      else
        negb (mem v (k_L k)) && negb (String.eqb v (k_lo k)) && negb (String.eqb v (k_hi k)) &&
        ok_e k false [] lo && ok_e k false [] hi && ok_oe k false [] st && forallb chk_out_s b
  | SIf c t e => ok_e k false [] c && forallb chk_out_s t && forallb chk_out_s e
  | SSkip _ => true
  | SWhile _ _ => false
  | SCall _ args => calls && forallb (ok_e k false []) args
  end.
End Checks.

Definition chk_out (k : ctx) (calls : bool) (p : list stmt) : bool := forallb (chk_out_s k calls) p.

Definition in_class (k : ctx) (calls : bool) (p : list stmt) : bool := wf_ctx k && chk_out k calls p.

(** * the per-column program *)
Fixpoint proj_s (h : string) (s : stmt) {struct s} : list stmt :=
  match s with
  | SDo v lo hi st b =>
      if String.eqb v h then flat_map (proj_s h) b else [SDo v lo hi st (flat_map (proj_s h) b)]
  | SWhile c b => [SWhile c (flat_map (proj_s h) b)]
  | SIf c t e => [SIf c (flat_map (proj_s h) t) (flat_map (proj_s h) e)]
  | SSkip _ => []
  | SAssign _ _ | SStore _ _ _ | SCall _ _ => [s]
  end.

Definition project (h : string) (p : list stmt) : list stmt := flat_map (proj_s h) p.

(** scalars assigned by a statement (assignment targets and DO variables) *)
Fixpoint assigned_s (s : stmt) {struct s} : list string :=
  match s with
  | SAssign x _ => [x]
  | SDo v _ _ _ b => v :: flat_map assigned_s b
  | SWhile _ b => flat_map assigned_s b
  | SIf _ t e => flat_map assigned_s t ++ flat_map assigned_s e
  | SStore _ _ _ | SCall _ _ | SSkip _ => []
  end.

(** the scalars assigned inside horizontal loops: the [L] the validator uses *)
Fixpoint locals_s (h : string) (s : stmt) {struct s} : list string :=
  match s with
  | SDo v _ _ _ b => if String.eqb v h then flat_map assigned_s b else flat_map (locals_s h) b
  | SWhile _ b => flat_map (locals_s h) b
  | SIf _ t e => flat_map (locals_s h) t ++ flat_map (locals_s h) e
  | SAssign _ _ | SStore _ _ _ | SCall _ _ | SSkip _ => []
  end.

Definition locals (h : string) (p : list stmt) : list string := flat_map (locals_s h) p.

(** * demotion [t(h)] -> [t] of the temporaries in [Dm] (on column programs) *)
Definition is_hidx (h : string) (idx : list expr) : bool :=
  match idx with [e] => is_var h e | _ => false end.

Fixpoint dem_e (h : string) (Dm : list string) (e : expr) {struct e} : expr :=
  match e with
  | EInt _ | EPy _ | ELog _ | EVar _ => e
  | ESum p cs => ESum p (map (dem_e h Dm) cs)
  | EProd p cs => EProd p (map (dem_e h Dm) cs)
  | EAnd cs => EAnd (map (dem_e h Dm) cs)
  | EOr cs => EOr (map (dem_e h Dm) cs)
  | EQuot p a b => EQuot p (dem_e h Dm a) (dem_e h Dm b)
  | EPow p a b => EPow p (dem_e h Dm a) (dem_e h Dm b)
  | ECmp o a b => ECmp o (dem_e h Dm a) (dem_e h Dm b)
  | ENot a => ENot (dem_e h Dm a)
  | ECall f args => if mem f Dm && is_hidx h args then EVar f else ECall f (map (dem_e h Dm) args)
  end.

Fixpoint dem_s (h : string) (Dm : list string) (s : stmt) {struct s} : stmt :=
  match s with
  | SAssign x e => SAssign x (dem_e h Dm e)
  | SStore a idx e =>
      if mem a Dm && is_hidx h idx then SAssign a (dem_e h Dm e) else SStore a (map (dem_e h Dm) idx) (dem_e h Dm e)
  | SDo v lo hi st b => SDo v (dem_e h Dm lo) (dem_e h Dm hi) (option_map (dem_e h Dm) st) (map (dem_s h Dm) b)
  | SWhile c b => SWhile (dem_e h Dm c) (map (dem_s h Dm) b)
  | SIf c t e => SIf (dem_e h Dm c) (map (dem_s h Dm) t) (map (dem_s h Dm) e)
  | SCall f args => SCall f (map (dem_e h Dm) args)
  | SSkip l => SSkip l
  end.

Definition demote (h : string) (Dm : list string) (p : list stmt) : list stmt := map (dem_s h Dm) p.

(** a column program is [Dm]-clean: the demoted names occur only as [t(h)], never as scalars, [h] is never assigned *)
Fixpoint dclean_e (h : string) (Dm : list string) (e : expr) {struct e} : bool :=
  match e with
  | EInt _ | EPy _ | ELog _ => true
  | EVar x => negb (mem x Dm)
  | ESum _ cs | EProd _ cs | EAnd cs | EOr cs => forallb (dclean_e h Dm) cs
  | EQuot _ a b | EPow _ a b | ECmp _ a b => dclean_e h Dm a && dclean_e h Dm b
  | ENot a => dclean_e h Dm a
  | ECall f args => if mem f Dm then is_hidx h args else forallb (dclean_e h Dm) args
  end.

Definition dclean_oe (h : string) (Dm : list string) (o : option expr) : bool :=
  match o with None => true | Some e => dclean_e h Dm e end.

Fixpoint dclean_s (h : string) (Dm : list string) (calls : bool) (s : stmt) {struct s} : bool :=
  match s with
  | SAssign x e => negb (mem x Dm) && negb (String.eqb x h) && dclean_e h Dm e
  | SStore a idx e => (if mem a Dm then is_hidx h idx else forallb (dclean_e h Dm) idx) && dclean_e h Dm e
  | SDo v lo hi st b =>
      negb (mem v Dm) && negb (String.eqb v h) && dclean_e h Dm lo && dclean_e h Dm hi && dclean_oe h Dm st &&
      forallb (dclean_s h Dm calls) b
  | SWhile _ _ => false
  | SIf c t e => dclean_e h Dm c && forallb (dclean_s h Dm calls) t && forallb (dclean_s h Dm calls) e
  | SCall _ args => calls && forallb (dclean_e h Dm) args
  | SSkip _ => true
  end.

Definition dclean (h : string) (Dm : list string) (calls : bool) (p : list stmt) : bool := forallb (dclean_s h Dm calls) p.

(** sequential variant: every CALL receives the horizontal index as an additional last actual *)
Fixpoint addh_s (h : string) (s : stmt) {struct s} : stmt :=
  match s with
  | SDo v lo hi st b => SDo v lo hi st (map (addh_s h) b)
  | SWhile c b => SWhile c (map (addh_s h) b)
  | SIf c t e => SIf c (map (addh_s h) t) (map (addh_s h) e)
  | SCall f args => SCall f (args ++ [EVar h])
  | SAssign _ _ | SStore _ _ _ | SSkip _ => s
  end.

Definition intrinsic_names : list string := ["mod"; "modulo"; "abs"; "min"; "max"]%string.

(** hoisting variants: CALLs receive additional actuals (the hoisted temporaries) after the original ones: the comparison
    keeps the first [arity] actuals of every CALL of the transformed program *)
Fixpoint arity_of (ar : list (string * nat)) (f : string) : option nat :=
  match ar with [] => None | (g, n) :: r => if String.eqb g f then Some n else arity_of r f end.

Fixpoint cut_s (ar : list (string * nat)) (s : stmt) {struct s} : stmt :=
  match s with
  | SDo v lo hi st b => SDo v lo hi st (map (cut_s ar) b)
  | SWhile c b => SWhile c (map (cut_s ar) b)
  | SIf c t e => SIf c (map (cut_s ar) t) (map (cut_s ar) e)
  | SCall f args => match arity_of ar f with Some n => SCall f (firstn n args) | None => s end
  | SAssign _ _ | SStore _ _ _ | SSkip _ => s
  end.

Definition subset (a b : list string) : bool := forallb (fun x => mem x b) a.
Definition disjoint (a b : list string) : bool := forallb (fun x => negb (mem x b)) a.

(** * the validator
    [H]: horizontal arrays of the original kernel; [Dm]: the temporaries whose declaration lost the horizontal dimension;
    [p]: original body, [p']: transformed body (for the sequential variant already wrapped in one horizontal loop).
    [calls = false] is the proved class; [seqv]: compare CALLs modulo the added index actual; [ar]: arities for [cut_s]. *)
Definition mk_ctx (h lo hi : string) (H L : list string) : ctx :=
  {| k_h := h; k_lo := lo; k_hi := hi; k_H := H; k_L := L |}.

Definition V (calls seqv : bool) (ar : list (string * nat)) (h lo hi : string) (H Dm : list string) (p p' : list stmt) : bool :=
  let k := mk_ctx h lo hi H (locals h p) in
  let k' := mk_ctx h lo hi (filter (fun a => negb (mem a Dm)) H) (locals h p') in
  in_class k calls p && in_class k' calls p' &&
  subset Dm H && subset Dm (k_L k') && negb (mem h Dm) && disjoint Dm intrinsic_names &&
  dclean h Dm calls (project h p) &&
  stmts_eqb (demote h Dm (if seqv then map (addh_s h) (project h p) else project h p))
            (if calls then map (cut_s ar) (project h p') else project h p').

(** sequential variant: the transformed kernel body is a column program with [h] as a dummy; it is executed by the
    horizontal loop the driver now contains *)
Definition wrap_h (h lo hi : string) (body : list stmt) : list stmt := [SDo h (EVar lo) (EVar hi) None body].

(** * driver check (syntactic): vector variant — unchanged up to comment lines; sequential variant — each kernel CALL is
    wrapped in a horizontal loop whose bounds are the actuals bound to the callee's bound dummies, and receives [h] *)
Fixpoint unwrap_s (h : string) (plo phi : nat) (s : stmt) {struct s} : list stmt :=
  match s with
  | SDo v lo hi st b =>
      if String.eqb v h then
        match b, st with
        | [SCall f args], None =>
            if expr_eqb (nth plo args (ELog false)) lo && expr_eqb (nth phi args (ELog false)) hi
            then [SCall f args] else [SSkip "bad-bounds"]
        | _, _ => [SSkip "bad-horizontal-loop"]
        end
      else [SDo v lo hi st (flat_map (unwrap_s h plo phi) b)]
  | SWhile c b => [SWhile c (flat_map (unwrap_s h plo phi) b)]
  | SIf c t e => [SIf c (flat_map (unwrap_s h plo phi) t) (flat_map (unwrap_s h plo phi) e)]
  | SSkip _ => []
  | SAssign _ _ | SStore _ _ _ | SCall _ _ => [s]
  end.

Definition chk_driver (seqv : bool) (ar : list (string * nat)) (h : string) (plo phi : nat) (d d' : list stmt) : bool :=
  stmts_eqb (if seqv then map (addh_s h) (project h d) else project h d)
            (map (cut_s ar) (flat_map (unwrap_s h plo phi) d')).

(** * what the theorems speak about *)
Definition arrays_agree_except (Dm : list string) (s1 s2 : store) : Prop :=
  forall a idx, mem a Dm = false -> av s1 a idx = av s2 a idx.
