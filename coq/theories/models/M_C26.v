(** C26 — model of Loki's dataflow attacher (loki/analyse/dataflow_analysis.py) on the shared MiniF
    core, and an instrumented MiniF interpreter that reports what an execution writes and what it
    reads before writing.  Definitions only (proofs: proofs/P_C26*.v).

    Sets of symbols are lists of lower-case variable NAMES (Loki strips subscripts with
    [strip_nested_dimensions] before it puts a symbol in a set); the order and multiplicity of the
    lists is irrelevant, the comparators use set equality. *)
From Coq Require Import ZArith List Bool String.
From LV Require Import Base.Expr Base.MiniF.
Import ListNotations.
Open Scope Z_scope.

(** * Name sets *)
Definition names := list string.
Definition mem (x : string) (l : names) : bool := existsb (String.eqb x) l.
Definition diff (a b : names) : names := filter (fun x => negb (mem x b)) a.
Definition inter (a b : names) : names := filter (fun x => mem x b) a.
Definition rem1 (v : string) (a : names) : names := filter (fun x => negb (String.eqb x v)) a.
Definition subset (a b : names) : bool := forallb (fun x => mem x b) a.
Definition set_eqb (a b : names) : bool := subset a b && subset b a.
Definition disjointb (a b : names) : bool := forallb (fun x => negb (mem x b)) a.

(** * Symbols of expressions (FindVariables + strip_nested_dimensions) *)

(** the intrinsic functions of [Base.Expr.intrinsic] are not variables; every other [ECall] is an
    array element reference *)
Definition is_intrinsic (f : string) : bool :=
  match intrinsic f [] with Some _ => true | None => false end.

(** all variable names of an expression, array names included, at any subscript depth *)
Fixpoint evars (e : expr) : names :=
  match e with
  | EInt _ | EPy _ | ELog _ => []
  | EVar x => [x]
  | ESum _ cs | EProd _ cs | EAnd cs | EOr cs => flat_map evars cs
  | EQuot _ a b | EPow _ a b | ECmp _ a b => evars a ++ evars b
  | ENot a => evars a
  | ECall f args => (if is_intrinsic f then [] else [f]) ++ flat_map evars args
  end.

(** scalar (subscript-free) variable names at any depth *)
Fixpoint scvars (e : expr) : names :=
  match e with
  | EInt _ | EPy _ | ELog _ => []
  | EVar x => [x]
  | ESum _ cs | EProd _ cs | EAnd cs | EOr cs => flat_map scvars cs
  | EQuot _ a b | EPow _ a b | ECmp _ a b => scvars a ++ scvars b
  | ENot a => scvars a
  | ECall _ args => flat_map scvars args
  end.

(** names occurring inside the subscripts of the array references of [e]
    ([_symbols_from_expr(a.dimensions)] for every Array [a] found in [e]) *)
Fixpoint subs_all (e : expr) : names :=
  match e with
  | EInt _ | EPy _ | ELog _ | EVar _ => []
  | ESum _ cs | EProd _ cs | EAnd cs | EOr cs => flat_map subs_all cs
  | EQuot _ a b | EPow _ a b | ECmp _ a b => subs_all a ++ subs_all b
  | ENot a => subs_all a
  | ECall f args => (if is_intrinsic f then [] else flat_map evars args) ++ flat_map subs_all args
  end.

(** the same, but only the subscript-free symbols: in the branch without call context the attacher
    compares stripped symbols against the RAW result of FindVariables(a.dimensions); an array
    reference with subscripts in that set never equals a stripped symbol *)
Fixpoint subs_sc (e : expr) : names :=
  match e with
  | EInt _ | EPy _ | ELog _ | EVar _ => []
  | ESum _ cs | EProd _ cs | EAnd cs | EOr cs => flat_map subs_sc cs
  | EQuot _ a b | EPow _ a b | ECmp _ a b => subs_sc a ++ subs_sc b
  | ENot a => subs_sc a
  | ECall f args => (if is_intrinsic f then [] else flat_map scvars args) ++ flat_map subs_sc args
  end.

(** * Call context: dummy intents of enriched callees *)
Inductive intent := IIn | IOut | IInOut | INone.
Definition is_out (i : intent) : bool := match i with IOut | IInOut => true | _ => false end.
Definition is_in (i : intent) : bool := match i with IIn | IInOut => true | _ => false end.

(** [find_sig sg f = Some intents]: the CallStatement has [routine] set (enriched) and the dummies
    have these intents, in order; [None]: no call context *)
Definition sigs := list (string * list intent).
Fixpoint find_sig (sg : sigs) (f : string) : option (list intent) :=
  match sg with
  | [] => None
  | (g, its) :: r => if String.eqb g f then Some its else find_sig r f
  end.

(** visit_CallStatement *)
Definition call_du (osig : option (list intent)) (args : list expr) : names * names :=
  match osig with
  | Some its =>
      let pairs := combine its args in
      let outv := map snd (filter (fun p => is_out (fst p)) pairs) in
      let inv := map snd (filter (fun p => is_in (fst p)) pairs) in
      let dims := flat_map subs_all outv in
      (diff (flat_map evars outv) dims, dims ++ flat_map evars inv)
  | None =>
      let dims := flat_map subs_sc args in
      let d := diff (flat_map evars args) dims in
      (d, d ++ flat_map subs_all args)
  end.

(** * Transfer functions: (defines, uses) of a node, bottom-up *)

Definition bound_vars (lo hi : expr) (st : option expr) : names :=
  evars lo ++ evars hi ++ match st with Some e => evars e | None => [] end.

(** [_visit_body] with its accumulators: [uses |= node.uses - defines; defines |= node.defines] *)
Definition du_fold (f : stmt -> names * names) : list stmt -> names -> names -> names * names :=
  fix body (ss : list stmt) (defs uses : names) : names * names :=
    match ss with
    | [] => (defs, uses)
    | x :: r => let du := f x in body r (defs ++ fst du) (uses ++ diff (snd du) defs)
    end.

Fixpoint du_stmt (sg : sigs) (st : stmt) : names * names :=
  match st with
  | SAssign x e => ([x], evars e)
  | SStore a idx e => ([a], flat_map evars idx ++ evars e)
  | SDo v lo hi stp b =>
      let du := du_fold (du_stmt sg) b [] (bound_vars lo hi stp) in (rem1 v (fst du), rem1 v (snd du))
  | SWhile c b => du_fold (du_stmt sg) b [] (evars c)
  | SIf c tb eb =>
      let du1 := du_fold (du_stmt sg) tb [] (evars c) in
      let du2 := du_fold (du_stmt sg) eb [] (snd du1) in
      (fst du1 ++ fst du2, snd du2)
  | SCall f args => call_du (find_sig sg f) args
  | SSkip _ => ([], [])
  end.

Definition du_body (sg : sigs) : list stmt -> names -> names -> names * names := du_fold (du_stmt sg).

Definition defines_of (sg : sigs) (ss : list stmt) : names := fst (du_body sg ss [] []).
Definition uses_of (sg : sigs) (ss : list stmt) : names := snd (du_body sg ss [] []).

(** * Live symbols, top-down; the annotation of every node in pre-order *)
Definition ann := (names * names * names)%type.     (* defines, uses, live *)

Definition annot_fold (sg : sigs) (f : names -> stmt -> list ann) : names -> list stmt -> list ann :=
  fix body (lv : names) (ss : list stmt) : list ann :=
    match ss with
    | [] => []
    | x :: r => f lv x ++ body (lv ++ fst (du_stmt sg x)) r
    end.

Fixpoint annot_stmt (sg : sigs) (live : names) (st : stmt) : list ann :=
  let du := du_stmt sg st in
  (fst du, snd du, live) ::
  match st with
  | SDo v _ _ _ b => annot_fold sg (annot_stmt sg) (v :: live) b
  | SWhile _ b => annot_fold sg (annot_stmt sg) live b
  | SIf _ tb eb => annot_fold sg (annot_stmt sg) live tb ++ annot_fold sg (annot_stmt sg) live eb
  | _ => []
  end.

Definition annot_body (sg : sigs) : names -> list stmt -> list ann := annot_fold sg (annot_stmt sg).

(** attach_dataflow_analysis: the routine body is live-in for its arguments of intent in/inout *)
Definition root_live (args : list (string * intent)) : names :=
  map fst (filter (fun a => is_in (snd a)) args).

(** the Section node of the routine body followed by all nested nodes *)
Definition annot_routine (sg : sigs) (args : list (string * intent)) (ss : list stmt) : list ann :=
  let l := root_live args in
  (defines_of sg ss, uses_of sg ss, l) :: annot_body sg l ss.

Definition ann_eqb (a b : ann) : bool :=
  let '(d1, u1, l1) := a in let '(d2, u2, l2) := b in
  set_eqb d1 d2 && set_eqb u1 u2 && set_eqb l1 l2.

Fixpoint anns_eqb (a b : list ann) : bool :=
  match a, b with
  | [], [] => true
  | x :: r, y :: q => ann_eqb x y && anns_eqb r q
  | _, _ => false
  end.

(** * SELECT CASE (MultiConditional)

    A source-level SELECT CASE is encoded in the MiniF core as the IF / ELSE IF chain that is its
    semantics ([selector == value], first match wins, CASE DEFAULT last).  The conditions of the chain
    carry a tag that changes neither their value nor their symbols: [EAnd [ELog true; c]] for the first
    link (the SELECT node itself), [EAnd [ELog true; ELog true; c]] for the following links, which are not
    nodes of Loki's IR.  The sets of the first link are those of [visit_MultiConditional]
    ([select_du], proved equal as sets in proofs/P_C26_sel.v) and the bodies receive the same live set. *)
Definition sel_head (c : expr) : expr := EAnd [ELog true; c].
Definition sel_cont (c : expr) : expr := EAnd [ELog true; ELog true; c].
Definition is_sel_cont (c : expr) : bool :=
  match c with EAnd [ELog true; ELog true; _] => true | _ => false end.

Definition case_cond (sel : expr) (vals : list expr) : expr := EOr (map (fun v => ECmp Ceq sel v) vals).

Fixpoint sel_chain_from (tag : expr -> expr) (sel : expr) (cases : list (list expr * list stmt)) (dflt : list stmt)
  : list stmt :=
  match cases with
  | [] => dflt
  | (vals, b) :: r => [SIf (tag (case_cond sel vals)) b (sel_chain_from sel_cont sel r dflt)]
  end.
Definition sel_chain (sel : expr) (cases : list (list expr * list stmt)) (dflt : list stmt) : list stmt :=
  sel_chain_from sel_head sel cases dflt.

(** visit_MultiConditional, literally: uses start with the symbols of the selector and of all case
    values; every body is visited with fresh defines and the running uses; defines are united *)
Definition select_du (sg : sigs) (sel : expr) (cases : list (list expr * list stmt)) (dflt : list stmt) : names * names :=
  let uses0 := evars sel ++ flat_map (fun cb => flat_map evars (fst cb)) cases in
  let r := fold_left (fun acc cb => let du := du_body sg (snd cb) [] (snd acc) in (fst acc ++ fst du, snd du))
                     cases ([], uses0) in
  let du := du_body sg dflt [] (snd r) in
  (fst r ++ fst du, snd du).

(** nodes of the encoding that are not nodes of Loki's IR (pre-order, Section first) *)
Definition is_cont_stmt (st : stmt) : bool := match st with SIf c _ _ => is_sel_cont c | _ => false end.
Fixpoint mask_stmt (st : stmt) : list bool :=
  is_cont_stmt st ::
  match st with
  | SDo _ _ _ _ b | SWhile _ b => flat_map mask_stmt b
  | SIf _ tb eb => flat_map mask_stmt tb ++ flat_map mask_stmt eb
  | _ => []
  end.
Definition mask_routine (ss : list stmt) : list bool := false :: flat_map mask_stmt ss.

Fixpoint drop_virtual {A} (l : list A) (m : list bool) : list A :=
  match l, m with
  | x :: r, b :: q => if b then drop_virtual r q else x :: drop_virtual r q
  | _, _ => l
  end.

(** correspondence comparator: Loki's per-node sets (pre-order) vs the model *)
Definition chk_annot (sg : sigs) (args : list (string * intent)) (ss : list stmt) (out : list ann) : bool :=
  anns_eqb (drop_virtual (annot_routine sg args ss) (mask_routine ss)) out.

(** * Instrumented interpreter *)

Inductive loc := LS (x : string) | LA (a : string) (i : list Z).
Definition lname (l : loc) : string := match l with LS x => x | LA a _ => a end.
Definition loc_eqb (a b : loc) : bool :=
  match a, b with
  | LS x, LS y => String.eqb x y
  | LA x i, LA y j => String.eqb x y && list_z_eqb i j
  | _, _ => false
  end.
Definition mem_loc (l : loc) (ls : list loc) : bool := existsb (loc_eqb l) ls.

(** what one execution of a node did: the locations written, and the locations read before being
    written inside the node (reads of a location that the node itself wrote earlier are not
    listed) *)
Definition summary := (list loc * list loc)%type.
Definition seqT (a b : summary) : summary :=
  (fst a ++ fst b, snd a ++ filter (fun l => negb (mem_loc l (fst a))) (snd b)).
Definition rdT (r : list loc) : summary := ([], r).
Definition wrT (l : loc) : summary := ([l], []).
Definition nilT : summary := ([], []).

(** locations read by the evaluation of an expression *)
Fixpoint ereads (s : store) (e : expr) : list loc :=
  match e with
  | EInt _ | EPy _ | ELog _ => []
  | EVar x => [LS x]
  | ESum _ cs | EProd _ cs | EAnd cs | EOr cs => flat_map (ereads s) cs
  | EQuot _ a b | EPow _ a b | ECmp _ a b => ereads s a ++ ereads s b
  | ENot a => ereads s a
  | ECall f args =>
      flat_map (ereads s) args ++
      (if is_intrinsic f then []
       else match eval_idx s args with Some i => [LA f i] | None => [] end)
  end.

(** CALL: a variable actual is passed by reference (not read at the call); any other actual is
    evaluated at the call.  Accesses of the callee to a dummy are accesses to the variable actual
    bound to it; accesses to callee locals are invisible. *)
Fixpoint arg_reads (s : store) (params : list (string * bool)) (args : list expr) : list loc :=
  match params, args with
  | (_, false) :: ps, a :: r => (match a with EVar _ => [] | _ => ereads s a end) ++ arg_reads s ps r
  | (_, true) :: ps, _ :: r => arg_reads s ps r
  | _, _ => []
  end.

Fixpoint back (params : list (string * bool)) (args : list expr) (l : loc) : list loc :=
  match params, args with
  | (d, b) :: ps, a :: r =>
      (match a, b, l with
       | EVar x, false, LS y => if String.eqb y d then [LS x] else []
       | EVar x, true, LA y i => if String.eqb y d then [LA x i] else []
       | _, _, _ => []
       end) ++ back ps r l
  | _, _ => []
  end.

Definition back_tr (params : list (string * bool)) (args : list expr) (t : summary) : summary :=
  (flat_map (back params args) (fst t), flat_map (back params args) (snd t)).

Fixpoint do_loop_tr (run : store -> option (store * summary)) (v : string) (d : Z) (n : nat) (i : Z) (s : store)
  : option (store * summary) :=
  match n with
  | O => Some (set_sv v i s, wrT (LS v))
  | S k =>
      obind (run (set_sv v i s)) (fun r1 =>
      obind (do_loop_tr run v d k (i + d) (fst r1)) (fun r2 =>
        Some (fst r2, seqT (seqT (wrT (LS v)) (snd r1)) (snd r2))))
  end.

Definition step_reads (s : store) (stp : option expr) : list loc :=
  match stp with Some e => ereads s e | None => [] end.

(** one statement; [rec] runs a statement list with the remaining fuel *)
Definition step_tr (ps : procs) (rec : list stmt -> store -> option (store * summary)) (st : stmt) (s : store)
  : option (store * summary) :=
  match st with
  | SAssign x e =>
      obind (evalZ (env_st s) e) (fun v => Some (set_sv x v s, seqT (rdT (ereads s e)) (wrT (LS x))))
  | SStore a idx e =>
      obind (eval_idx s idx) (fun i => obind (evalZ (env_st s) e) (fun v =>
        Some (set_av a i v s, seqT (rdT (flat_map (ereads s) idx ++ ereads s e)) (wrT (LA a i)))))
  | SDo v lo hi stp body =>
      obind (evalZ (env_st s) lo) (fun a =>
      obind (evalZ (env_st s) hi) (fun b =>
      obind (match stp with None => Some 1 | Some e => evalZ (env_st s) e end) (fun d =>
        if d =? 0 then None else
        obind (do_loop_tr (rec body) v d (Z.to_nat (trip_count a b d)) a s) (fun r =>
          Some (fst r, seqT (rdT (ereads s lo ++ ereads s hi ++ step_reads s stp)) (snd r))))))
  | SWhile c body =>
      obind (evalB (env_st s) c) (fun b =>
        if b then
          obind (rec body s) (fun r1 =>
          obind (rec [SWhile c body] (fst r1)) (fun r2 =>
            Some (fst r2, seqT (rdT (ereads s c)) (seqT (snd r1) (snd r2)))))
        else Some (s, rdT (ereads s c)))
  | SIf c tb eb =>
      obind (evalB (env_st s) c) (fun b =>
        obind (rec (if b then tb else eb) s) (fun r => Some (fst r, seqT (rdT (ereads s c)) (snd r))))
  | SCall g args =>
      obind (find_proc ps g) (fun p =>
      obind (copy_in s (p_params p) args empty_store) (fun s0 =>
      obind (rec (p_body p) s0) (fun r =>
        Some (copy_out (fst r) (p_params p) args s,
              seqT (rdT (arg_reads s (p_params p) args)) (back_tr (p_params p) args (snd r))))))
  | SSkip _ => Some (s, nilT)
  end.

(** same semantics as [Base.MiniF.exec] (proved: [exec_tr_erase]) plus the summary of the run *)
Fixpoint exec_tr (ps : procs) (fuel : nat) (ss : list stmt) (s : store) {struct fuel} : option (store * summary) :=
  match fuel with
  | O => None
  | S f =>
    match ss with
    | [] => Some (s, nilT)
    | st :: rest =>
        obind (step_tr ps (exec_tr ps f) st s) (fun r1 =>
        obind (exec_tr ps f rest (fst r1)) (fun r2 => Some (fst r2, seqT (snd r1) (snd r2))))
    end
  end.

Definition wnames (t : summary) : names := map lname (fst t).
Definition rnames (t : summary) : names := map lname (snd t).

(** correspondence comparator for the Python tracing interpreter used by the oracle: the names
    written / read-before-written by a run from a given store *)
Definition chk_trace (ps : procs) (fuel : nat) (ss : list stmt)
           (scal0 : list (string * Z)) (cells0 : list (string * list Z * Z)) (w r : names) : bool :=
  match exec_tr ps fuel ss (init_store scal0 cells0) with
  | Some (_, t) => set_eqb (wnames t) w && set_eqb (rnames t) r
  | None => false
  end.

(** * Class predicates (where the attacher is right) and the names it deliberately leaves out *)

(** DO variables of the loops in a statement list: the attacher removes the induction variable from
    the loop's defines although the loop changes it *)
Fixpoint dovars_stmt (st : stmt) : names :=
  match st with
  | SDo v _ _ _ b => v :: flat_map dovars_stmt b
  | SWhile _ b => flat_map dovars_stmt b
  | SIf _ tb eb => flat_map dovars_stmt tb ++ flat_map dovars_stmt eb
  | _ => []
  end.
Definition dovars (ss : list stmt) : names := flat_map dovars_stmt ss.

(** per-procedure "this scalar dummy is assigned on every terminating execution of the body" flags
    (side information for the class predicate only; Loki never sees it) *)
Definition musts := list (string * list bool).
Fixpoint find_must (mw : musts) (f : string) : option (list bool) :=
  match mw with
  | [] => None
  | (g, l) :: r => if String.eqb g f then Some l else find_must r f
  end.

(** scalar names that are certainly written by every terminating execution *)
Fixpoint mdef_stmt (mw : musts) (st : stmt) : names :=
  match st with
  | SAssign x _ => [x]
  | SIf _ tb eb => inter (flat_map (mdef_stmt mw) tb) (flat_map (mdef_stmt mw) eb)
  | SCall f args =>
      match find_must mw f with
      | Some fl => flat_map (fun p => match p with (true, EVar x) => [x] | _ => [] end) (combine fl args)
      | None => []
      end
  | _ => []
  end.
Definition mdef (mw : musts) (ss : list stmt) : names := flat_map (mdef_stmt mw) ss.

(** array heads of an expression *)
Fixpoint eanames (e : expr) : names :=
  match e with
  | EInt _ | EPy _ | ELog _ | EVar _ => []
  | ESum _ cs | EProd _ cs | EAnd cs | EOr cs => flat_map eanames cs
  | EQuot _ a b | EPow _ a b | ECmp _ a b => eanames a ++ eanames b
  | ENot a => eanames a
  | ECall f args => (if is_intrinsic f then [] else [f]) ++ flat_map eanames args
  end.

Fixpoint call_anames (params : list (string * bool)) (args : list expr) : names :=
  match params, args with
  | (_, true) :: ps, EVar a :: r => a :: call_anames ps r
  | (_, true) :: ps, _ :: r => call_anames ps r
  | (_, false) :: ps, e :: r => eanames e ++ call_anames ps r
  | _, _ => []
  end.

(** names accessed as arrays by an execution *)
Fixpoint anames_stmt (ps : procs) (st : stmt) : names :=
  match st with
  | SAssign _ e => eanames e
  | SStore a idx e => a :: flat_map eanames idx ++ eanames e
  | SDo _ lo hi stp b =>
      eanames lo ++ eanames hi ++ (match stp with Some e => eanames e | None => [] end) ++ flat_map (anames_stmt ps) b
  | SWhile c b => eanames c ++ flat_map (anames_stmt ps) b
  | SIf c tb eb => eanames c ++ flat_map (anames_stmt ps) tb ++ flat_map (anames_stmt ps) eb
  | SCall f args => match find_proc ps f with Some p => call_anames (p_params p) args | None => [] end
  | SSkip _ => []
  end.
Definition anames (ps : procs) (ss : list stmt) : names := flat_map (anames_stmt ps) ss.

(** calls whose variable actuals that the callee may write are all in the call's defines (fails for
    an actual that also occurs in a subscript of another written actual, the [dims] exclusion) *)
Definition call_dsafe (osig : option (list intent)) (args : list expr) : bool :=
  let d := fst (call_du osig args) in
  match osig with
  | Some its =>
      Nat.eqb (List.length its) (List.length args) &&
      forallb (fun p => match p with (it, EVar x) => negb (is_out it) || mem x d | _ => true end) (combine its args)
  | None => forallb (fun a => match a with EVar x => mem x d | _ => true end) args
  end.

Fixpoint dsafe_stmt (sg : sigs) (st : stmt) : bool :=
  match st with
  | SDo _ _ _ _ b | SWhile _ b => forallb (dsafe_stmt sg) b
  | SIf _ tb eb => forallb (dsafe_stmt sg) tb && forallb (dsafe_stmt sg) eb
  | SCall f args => call_dsafe (find_sig sg f) args
  | _ => true
  end.
Definition dsafe (sg : sigs) (ss : list stmt) : bool := forallb (dsafe_stmt sg) ss.

(** calls whose reads are all in the call's uses: an actual that is not a variable is evaluated at
    the call, so it must be bound to a dummy that the attacher counts as used *)
Definition call_usafe (osig : option (list intent)) (args : list expr) : bool :=
  match osig with
  | Some its =>
      Nat.eqb (List.length its) (List.length args) &&
      forallb (fun p => match p with (_, EVar _) => true | (it, _) => is_in it end) (combine its args)
  | None => true
  end.

(** the decidable class on which [uses] is right: whatever the enclosing body subtracts from a later
    use is either used earlier anyway or a scalar that the earlier statement certainly assigns (F9:
    the attacher subtracts every may-define) *)
Definition definite_fold (mw : musts) (ps : procs) (sg : sigs) (f : stmt -> bool) : list stmt -> bool :=
  fix body (ss : list stmt) : bool :=
    match ss with
    | [] => true
    | x :: r =>
        f x && body r &&
        forallb (fun n => mem n (snd (du_stmt sg x)) || (mem n (mdef_stmt mw x) && negb (mem n (anames ps r))))
                (inter (uses_of sg r) (fst (du_stmt sg x)))
    end.

Fixpoint definite_stmt (mw : musts) (ps : procs) (sg : sigs) (st : stmt) : bool :=
  match st with
  | SDo v lo hi stp b =>
      negb (mem v (bound_vars lo hi stp)) && negb (mem v (anames ps b)) && definite_fold mw ps sg (definite_stmt mw ps sg) b
  | SWhile _ b => definite_fold mw ps sg (definite_stmt mw ps sg) b
  | SIf _ tb eb => definite_fold mw ps sg (definite_stmt mw ps sg) tb && definite_fold mw ps sg (definite_stmt mw ps sg) eb
  | SCall f args => call_usafe (find_sig sg f) args
  | _ => true
  end.

Definition definite (mw : musts) (ps : procs) (sg : sigs) : list stmt -> bool :=
  definite_fold mw ps sg (definite_stmt mw ps sg).

(** the callee side of the call rules: an enriched callee respects its declared intents (a dummy
    that is not out/inout is not written, a dummy that is not in/inout is not read before written),
    its body is in the classes itself, its dummies are distinct, and its must-flags are right *)
Definition nodupb (l : names) : bool :=
  (fix go (l : names) : bool := match l with [] => true | x :: r => negb (mem x r) && go r end) l.

Definition proc_ok (mw : musts) (ps : procs) (sg : sigs) (f : string) (p : proc) : bool :=
  let dn := map fst (p_params p) in
  nodupb dn &&
  (match find_sig sg f with
   | Some its =>
       Nat.eqb (List.length its) (List.length dn) &&
       dsafe sg (p_body p) && definite mw ps sg (p_body p) &&
       forallb (fun q => match q with (it, d) =>
                  (is_out it || negb (mem d (defines_of sg (p_body p) ++ dovars (p_body p)))) &&
                  (is_in it || negb (mem d (uses_of sg (p_body p)))) end) (combine its dn)
   | None => true
   end) &&
  (match find_must mw f with
   | Some fl =>
       Nat.eqb (List.length fl) (List.length dn) &&
       forallb (fun q => match q with (b, (d, isarr)) => negb b || (negb isarr && mem d (mdef mw (p_body p))) end)
               (combine fl (p_params p))
   | None => true
   end).

(** every procedure name is judged by the first procedure of that name in [ps] (the one [find_proc] returns) *)
Definition sigs_ok (mw : musts) (ps : procs) (sg : sigs) : bool :=
  forallb (fun fp => match find_proc ps (fst fp) with
                     | Some p => proc_ok mw ps sg (fst fp) p
                     | None => true end) ps.

(** class flags of every node in pre-order (tie for the harness' own copy of the class predicates) *)
Fixpoint flags_stmt (mw : musts) (ps : procs) (sg : sigs) (st : stmt) : list (bool * bool) :=
  (definite_stmt mw ps sg st, dsafe_stmt sg st) ::
  match st with
  | SDo _ _ _ _ b | SWhile _ b => flat_map (flags_stmt mw ps sg) b
  | SIf _ tb eb => flat_map (flags_stmt mw ps sg) tb ++ flat_map (flags_stmt mw ps sg) eb
  | _ => []
  end.

Definition flags_routine (mw : musts) (ps : procs) (sg : sigs) (ss : list stmt) : list (bool * bool) :=
  (definite mw ps sg ss, dsafe sg ss) :: flat_map (flags_stmt mw ps sg) ss.

Fixpoint flags_eqb (a b : list (bool * bool)) : bool :=
  match a, b with
  | [], [] => true
  | (x1, x2) :: r, (y1, y2) :: q => Bool.eqb x1 y1 && Bool.eqb x2 y2 && flags_eqb r q
  | _, _ => false
  end.

Definition chk_flags (mw : musts) (ps : procs) (sg : sigs) (ss : list stmt) (ok : bool) (out : list (bool * bool)) : bool :=
  Bool.eqb (sigs_ok mw ps sg) ok && flags_eqb (flags_routine mw ps sg ss) out.

(** * Nodes that are not inside a loop, with the statements executed before them *)

(** live set handed to the [k]-th statement of a body visited with live set [L]
    ([live | defines] in [_visit_body]) *)
Definition live_before (sg : sigs) (L : names) (ss : list stmt) (k : nat) : names :=
  fold_left (fun l st => l ++ fst (du_stmt sg st)) (firstn k ss) L.

(** [at_node sg L ss pre lv st]: [st] is a node of the body [ss] reached through IF branches only;
    [lv] is the live set the attacher gives it when [ss] is visited with live set [L]; [pre] is the
    straight-line sequence of statements that have been executed when control enters [st] *)
Inductive at_node (sg : sigs) : names -> list stmt -> list stmt -> names -> stmt -> Prop :=
| at_here L ss k st :
    nth_error ss k = Some st -> at_node sg L ss (firstn k ss) (live_before sg L ss k) st
| at_if L ss j c tb eb (br : bool) pre lv st :
    nth_error ss j = Some (SIf c tb eb) ->
    at_node sg (live_before sg L ss j) (if br then tb else eb) pre lv st ->
    at_node sg L ss (firstn j ss ++ pre) lv st.
