(** C17 — cloning a program unit yields an independent, correctly scoped copy.  Definitions only.

    Models loki/program_unit.py ProgramUnit.clone (+ Subroutine.clone / Module.clone / Sourcefile.clone, which only
    collect constructor arguments), loki/types/scope.py Scope.clone / rescope_symbols, SymbolTable.clone and the
    scope attachment done by AttachScopes / AttachScopesMapper (loki/ir/expr_visitors.py, loki/expression/mappers.py).

    A program unit is a tree of scopes.  Every scope has an id (Python object identity, abstracted to an integer),
    a symbol table, the symbol occurrences of the IR directly under it (each holding a reference to a scope),
    and children: scoped IR nodes (Associate, TypeDef) and contained program units (member / module procedures).
    Names are folded to lower case by the harness (SymbolTable is case-insensitive, see C12). *)
From Coq Require Import ZArith List Bool String.
Import ListNotations.
Open Scope Z_scope.

Definition sid := Z.

(** object pointers stored in the dtype of a table entry: ProcedureType.procedure / DerivedType.typedef *)
Inductive link := LNone | LProc (i : sid) | LType (i : sid).

(** a symbol embedded in the attributes of a table entry (kind, initial value, shape, character length ...);
    [tr_resc]: the attribute is one that AttachScopes re-attaches (kind / initial / shape / bind_names of a name
    declared by a declaration or import statement of that very scope). *)
Record tref := { tr_name : string; tr_ref : option sid; tr_resc : bool }.

(** SymbolAttributes: all attribute values abstracted to one tag (canonical text numbered by the harness) *)
Record entry := { e_tag : Z; e_link : link; e_trefs : list tref }.
Definition table := list (string * entry).

Record occ := { o_name : string; o_ref : option sid }.

Inductive skind := KSub | KFun | KMod | KAssoc | KTypedef.

Inductive unit :=
  Unit (id : sid) (k : skind) (name : string) (par : option sid) (tab : table) (occs : list occ) (children : list unit).

Definition u_id (u : unit) := match u with Unit i _ _ _ _ _ _ => i end.
Definition u_kind (u : unit) := match u with Unit _ k _ _ _ _ _ => k end.
Definition u_name (u : unit) := match u with Unit _ _ n _ _ _ _ => n end.
Definition u_par (u : unit) := match u with Unit _ _ _ p _ _ _ => p end.
Definition u_tab (u : unit) := match u with Unit _ _ _ _ t _ _ => t end.
Definition u_occs (u : unit) := match u with Unit _ _ _ _ _ o _ => o end.
Definition u_children (u : unit) := match u with Unit _ _ _ _ _ _ c => c end.

Definition is_proc_kind (k : skind) : bool := match k with KSub | KFun => true | _ => false end.

(** * tables *)
Fixpoint tget (t : table) (n : string) : option entry :=
  match t with [] => None | (k, v) :: r => if String.eqb k n then Some v else tget r n end.
Definition thas (t : table) (n : string) : bool := match tget t n with Some _ => true | None => false end.
Fixpoint tset (t : table) (n : string) (v : entry) : table :=
  match t with
  | [] => [(n, v)]
  | (k, v') :: r => if String.eqb k n then (n, v) :: r else (k, v') :: tset r n v
  end.
Fixpoint tdel (t : table) (n : string) : table :=
  match t with
  | [] => []
  | (k, v) :: r => if String.eqb k n then tdel r n else (k, v) :: tdel r n
  end.

(** * scope chains: the scope a symbol is visited in, then its parents; Scope.get_symbol_scope *)
Definition chain := list (sid * table).

Fixpoint lookup_scope (c : chain) (n : string) : option sid :=
  match c with
  | [] => None
  | (i, t) :: r => if thas t n then Some i else lookup_scope r n
  end.

(** SymbolTable.lookup(name, recursive=True): the entry the chain resolves *)
Fixpoint lookup_entry (c : chain) (n : string) : option entry :=
  match c with
  | [] => None
  | (i, t) :: r => match tget t n with Some e => Some e | None => lookup_entry r n end
  end.

(** AttachScopesMapper._update_symbol_scope: the symbol is re-attached to the scope that declares its name;
    when no scope of the chain has the name the symbol is returned unchanged, i.e. it KEEPS its old scope. *)
Definition resc (c : chain) (n : string) (old : option sid) : option sid :=
  match lookup_scope c n with Some i => Some i | None => old end.

Definition clone_occ (c : chain) (o : occ) : occ := {| o_name := o_name o; o_ref := resc c (o_name o) (o_ref o) |}.
Definition clone_tref (c : chain) (t : tref) : tref :=
  if tr_resc t then {| tr_name := tr_name t; tr_ref := resc c (tr_name t) (tr_ref t); tr_resc := true |} else t.

(** id of the contained program unit registered under name [n] (register_in_parent_scope of the cloned member) *)
Fixpoint member_id (ch : list unit) (n : string) : option sid :=
  match ch with
  | [] => None
  | u :: r => if is_proc_kind (u_kind u) && String.eqb (u_name u) n then Some (u_id u) else member_id r n
  end.

(** SymbolTable.clone copies every entry (SymbolAttributes.clone is shallow: the expressions inside and the dtype
    object are shared); members re-register themselves in the new table; DerivedType.typedef is NOT re-linked. *)
Definition clone_link (d : Z) (ch : list unit) (n : string) (l : link) : link :=
  match l with
  | LProc i => match member_id ch n with Some j => LProc (j + d) | None => LProc i end
  | _ => l
  end.
Definition clone_entry (d : Z) (c : chain) (ch : list unit) (ne : string * entry) : string * entry :=
  (fst ne, {| e_tag := e_tag (snd ne); e_link := clone_link d ch (fst ne) (e_link (snd ne));
              e_trefs := map (clone_tref c) (e_trefs (snd ne)) |}).

(** the copy: fresh scope objects (id + d), copied tables, parents re-pointed to the new objects, all symbols of the
    new IR re-attached by name look-up through the NEW chain (rescope_symbols).  [above]: chain enclosing the new unit. *)
Fixpoint clone_u (d : Z) (above : chain) (par : option sid) (u : unit) : unit :=
  match u with
  | Unit i k nm _ tab occs ch =>
      let c := (i + d, tab) :: above in
      Unit (i + d) k nm par (map (clone_entry d c ch) tab) (map (clone_occ c) occs)
           (map (clone_u d c (Some (i + d))) ch)
  end.

(** unit.clone(): the parent scope is kept (it lies outside the unit) *)
Definition clone (d : Z) (ctx : chain) (u : unit) : unit := clone_u d ctx (u_par u) u.

(** * ids and references *)
Fixpoint ids (u : unit) : list sid :=
  match u with Unit i _ _ _ _ _ ch => i :: flat_map ids ch end.

Definition opt_list {A} (o : option A) : list A := match o with Some x => [x] | None => [] end.
Definition link_ids (l : link) : list sid := match l with LNone => [] | LProc i => [i] | LType i => [i] end.
Definition entry_refs (e : entry) : list sid := link_ids (e_link e) ++ flat_map (fun t => opt_list (tr_ref t)) (e_trefs e).
Definition table_refs (t : table) : list sid := flat_map (fun ne => entry_refs (snd ne)) t.
Definition occ_refs (os : list occ) : list sid := flat_map (fun o => opt_list (o_ref o)) os.

(** every scope mentioned anywhere in the unit: parent pointers, symbol scopes, scopes of symbols inside types, links *)
Fixpoint refs (u : unit) : list sid :=
  match u with
  | Unit _ _ _ par tab occs ch => opt_list par ++ table_refs tab ++ occ_refs occs ++ flat_map refs ch
  end.

Definition memZ (x : Z) (l : list Z) : bool := existsb (Z.eqb x) l.

(** * the intended result: rename the unit's own scopes, leave everything else alone *)
Definition ren (d : Z) (own : list sid) (i : sid) : sid := if memZ i own then i + d else i.

Definition map_link (f : sid -> sid) (l : link) : link :=
  match l with LNone => LNone | LProc i => LProc (f i) | LType i => LType (f i) end.
Definition map_tref (f : sid -> sid) (t : tref) : tref :=
  {| tr_name := tr_name t; tr_ref := option_map f (tr_ref t); tr_resc := tr_resc t |}.
Definition map_entry (f : sid -> sid) (ne : string * entry) : string * entry :=
  (fst ne, {| e_tag := e_tag (snd ne); e_link := map_link f (e_link (snd ne)); e_trefs := map (map_tref f) (e_trefs (snd ne)) |}).
Definition map_occ (f : sid -> sid) (o : occ) : occ := {| o_name := o_name o; o_ref := option_map f (o_ref o) |}.
Fixpoint rename (f : sid -> sid) (u : unit) : unit :=
  match u with
  | Unit i k nm par tab occs ch =>
      Unit (f i) k nm (option_map f par) (map (map_entry f) tab) (map (map_occ f) occs) (map (rename f) ch)
  end.

(** the part of a unit that the rescoping always gets right: drop links and the symbols inside types *)
Definition skel_entry (ne : string * entry) : string * entry :=
  (fst ne, {| e_tag := e_tag (snd ne); e_link := LNone; e_trefs := [] |}).
Fixpoint skeleton (u : unit) : unit :=
  match u with
  | Unit i k nm par tab occs ch => Unit i k nm par (map skel_entry tab) occs (map skeleton ch)
  end.

(** * the class: well-scoped units *)
Definition outside (own : list sid) (r : option sid) : bool :=
  match r with None => true | Some i => negb (memZ i own) end.

Definition opt_sid_eqb (a b : option sid) : bool :=
  match a, b with Some x, Some y => x =? y | None, None => true | _, _ => false end.

(** a symbol named [n] attached to [r], visited in chain [c]: it is attached to the scope that declares the name,
    or nothing declares the name and it is attached to nothing inside the unit *)
Definition wf_ref (own : list sid) (c : chain) (n : string) (r : option sid) : bool :=
  match lookup_scope c n with
  | Some j => opt_sid_eqb r (Some j)
  | None => outside own r
  end.

Definition wf_tref (own : list sid) (c : chain) (t : tref) : bool :=
  if tr_resc t then wf_ref own c (tr_name t) (tr_ref t) else true.

Fixpoint wf_u (own : list sid) (above : chain) (par : option sid) (u : unit) : bool :=
  match u with
  | Unit i k nm p tab occs ch =>
      let c := (i, tab) :: above in
      opt_sid_eqb p par
      && forallb (fun o => wf_ref own c (o_name o) (o_ref o)) occs
      && forallb (fun ne => forallb (wf_tref own c) (e_trefs (snd ne))) tab
      && forallb (wf_u own c (Some i)) ch
  end.

(** [wf ctx u]: parent pointers follow the tree and every re-attachable symbol is attached where its name resolves *)
Definition wf (ctx : chain) (u : unit) : bool := outside (ids u) (u_par u) && wf_u (ids u) ctx (u_par u) u.

(** [clean]: what rescoping does not touch does not point into the unit: symbols inside types that are not
    re-attached (Associate-derived types, derived-type member entries, character lengths), DerivedType.typedef
    pointers, procedure pointers other than the registered members *)
Definition clean_link (own : list sid) (ch : list unit) (n : string) (l : link) : bool :=
  match l with
  | LNone => true
  | LProc i => match member_id ch n with Some j => i =? j | None => negb (memZ i own) end
  | LType i => negb (memZ i own)
  end.
Definition clean_tref (own : list sid) (t : tref) : bool := tr_resc t || outside own (tr_ref t).
Fixpoint clean_u (own : list sid) (u : unit) : bool :=
  match u with
  | Unit i k nm p tab occs ch =>
      forallb (fun ne => clean_link own ch (fst ne) (e_link (snd ne)) && forallb (clean_tref own) (e_trefs (snd ne))) tab
      && forallb (clean_u own) ch
  end.
Definition clean (u : unit) : bool := clean_u (ids u) u.

(** ids are unique, and ids/references of the unit and its context are below the offset used for the fresh objects *)
Fixpoint nodupZ (l : list Z) : bool :=
  match l with [] => true | x :: r => negb (memZ x r) && nodupZ r end.
Definition in_range (d : Z) (i : Z) : bool := (0 <=? i) && (i <? d).
Definition bounded (d : Z) (ctx : chain) (u : unit) : bool :=
  forallb (in_range d) (ids u) && forallb (in_range d) (refs u) && forallb (in_range d) (map fst ctx)
  && nodupZ (ids u) && forallb (fun i => negb (memZ i (ids u))) (map fst ctx).

(** no reference of [u] hits [own] *)
Definition closed_wrt (own : list sid) (u : unit) : bool := forallb (fun r => negb (memZ r own)) (refs u).

(** * later modifications, addressed by scope identity (an edit acts on whichever object carries the id) *)
Inductive edit :=
| ESetEntry (i : sid) (n : string) (e : entry)     (* scope.symbol_attrs[n] = e   (also: symbol.type = e via its scope) *)
| EDelEntry (i : sid) (n : string)                 (* del scope.symbol_attrs[n] *)
| EAddOcc (i : sid) (o : occ)                      (* a statement / declaration using the symbol is added under scope i *)
| EDelOcc (i : sid) (k : nat)                      (* the k-th symbol occurrence under scope i is removed *)
| ESetOcc (i : sid) (k : nat) (o : occ)            (* the k-th occurrence is replaced (renaming / substitution) *)
| EAddChild (i : sid) (c : unit)                   (* a member procedure or scoped node is added *)
| EDelChild (i : sid) (k : nat).

Definition target (e : edit) : sid :=
  match e with
  | ESetEntry i _ _ | EDelEntry i _ | EAddOcc i _ | EDelOcc i _ | ESetOcc i _ _ | EAddChild i _ | EDelChild i _ => i
  end.

(** scopes mentioned by what the edit brings in (and the identities of new scope objects) *)
Definition payload (e : edit) : list sid :=
  match e with
  | ESetEntry _ _ en => entry_refs en
  | EAddOcc _ o | ESetOcc _ _ o => opt_list (o_ref o)
  | EAddChild _ c => ids c ++ refs c
  | _ => []
  end.

Fixpoint remove_nth {A} (l : list A) (k : nat) : list A :=
  match l, k with
  | [], _ => []
  | _ :: r, O => r
  | x :: r, S j => x :: remove_nth r j
  end.
Fixpoint set_nth {A} (l : list A) (k : nat) (v : A) : list A :=
  match l, k with
  | [], _ => []
  | _ :: r, O => v :: r
  | x :: r, S j => x :: set_nth r j v
  end.

Definition edit_here (e : edit) (i : sid) (k : skind) (nm : string) (par : option sid) (tab : table) (occs : list occ) (ch : list unit) : unit :=
  match e with
  | ESetEntry _ n en => Unit i k nm par (tset tab n en) occs ch
  | EDelEntry _ n => Unit i k nm par (tdel tab n) occs ch
  | EAddOcc _ o => Unit i k nm par tab (occs ++ [o]) ch
  | EDelOcc _ j => Unit i k nm par tab (remove_nth occs j) ch
  | ESetOcc _ j o => Unit i k nm par tab (set_nth occs j o) ch
  | EAddChild _ c => Unit i k nm par tab occs (ch ++ [c])
  | EDelChild _ j => Unit i k nm par tab occs (remove_nth ch j)
  end.

Fixpoint apply_edit (e : edit) (u : unit) : unit :=
  match u with
  | Unit i k nm par tab occs ch =>
      let ch' := map (apply_edit e) ch in
      if i =? target e then edit_here e i k nm par tab occs ch' else Unit i k nm par tab occs ch'
  end.

Definition apply_edits (es : list edit) (u : unit) : unit := fold_left (fun a e => apply_edit e a) es u.

(** an edit made THROUGH copy [a]: its target scope is one of [a]'s scope objects or the scope some symbol of [a]
    is attached to (type setter), and it does not bring in symbols attached to scope objects of the other copy [b] *)
Inductive valid_edits (b : unit) : unit -> list edit -> Prop :=
| ve_nil : forall a, valid_edits b a []
| ve_cons : forall a e es,
    In (target e) (ids a ++ refs a) ->
    (forall r, In r (payload e) -> ~ In r (ids b)) ->
    valid_edits b (apply_edit e a) es ->
    valid_edits b a (e :: es).

(** * types seen by the symbols: the chain of the scope a symbol is attached to *)
Fixpoint chain_at (above : chain) (u : unit) (i : sid) : option chain :=
  match u with
  | Unit j _ _ _ tab _ ch =>
      let c := (j, tab) :: above in
      if j =? i then Some c
      else (fix first (l : list unit) : option chain :=
              match l with
              | [] => None
              | x :: r => match chain_at c x i with Some z => Some z | None => first r end
              end) ch
  end.

Fixpoint ctx_chain_at (ctx : chain) (i : sid) : option chain :=
  match ctx with
  | [] => None
  | (j, t) :: r => if j =? i then Some ctx else ctx_chain_at r i
  end.

(** tag of the type a symbol [n] attached to [r] reads (TypedSymbol.type -> _lookup_type(scope)); [None] = no type *)
Definition type_of (ctx : chain) (u : unit) (n : string) (r : option sid) : option Z :=
  match r with
  | None => None
  | Some i =>
      match chain_at ctx u i with
      | Some c => option_map e_tag (lookup_entry c n)
      | None => match ctx_chain_at ctx i with
                | Some c => option_map e_tag (lookup_entry c n)
                | None => None
                end
      end
  end.

Fixpoint all_occs (u : unit) : list occ :=
  match u with Unit _ _ _ _ _ occs ch => occs ++ flat_map all_occs ch end.

Definition occ_types (ctx : chain) (u : unit) : list (option Z) :=
  map (fun o => type_of ctx u (o_name o) (o_ref o)) (all_occs u).

(** * compact constructors for the case files written by the harness ([r < 0] encodes "no scope") *)
Definition oref (r : Z) : option sid := if r <? 0 then None else Some r.
Definition mkO (n : string) (r : Z) : occ := {| o_name := n; o_ref := oref r |}.
Definition mkT (n : string) (r : Z) (b : bool) : tref := {| tr_name := n; tr_ref := oref r; tr_resc := b |}.
Definition mkE (tag lk li : Z) (trs : list tref) : entry :=
  {| e_tag := tag; e_link := if lk =? 1 then LProc li else if lk =? 2 then LType li else LNone; e_trefs := trs |}.
Definition mkU (i : Z) (k : skind) (nm : string) (par : Z) (tab : table) (occs : list occ) (ch : list unit) : unit :=
  Unit i k nm (oref par) tab occs ch.

(** * comparators for the correspondence *)
Definition link_eqb (a b : link) : bool :=
  match a, b with
  | LNone, LNone => true
  | LProc x, LProc y => x =? y
  | LType x, LType y => x =? y
  | _, _ => false
  end.
Definition tref_eqb (a b : tref) : bool :=
  String.eqb (tr_name a) (tr_name b) && opt_sid_eqb (tr_ref a) (tr_ref b) && Bool.eqb (tr_resc a) (tr_resc b).
Fixpoint list_eqb {A} (f : A -> A -> bool) (a b : list A) : bool :=
  match a, b with
  | [], [] => true
  | x :: r, y :: q => f x y && list_eqb f r q
  | _, _ => false
  end.
Definition entry_eqb (a b : entry) : bool :=
  (e_tag a =? e_tag b) && link_eqb (e_link a) (e_link b) && list_eqb tref_eqb (e_trefs a) (e_trefs b).
Definition nentry_eqb (a b : string * entry) : bool := String.eqb (fst a) (fst b) && entry_eqb (snd a) (snd b).
Definition occ_eqb (a b : occ) : bool := String.eqb (o_name a) (o_name b) && opt_sid_eqb (o_ref a) (o_ref b).
Definition skind_eqb (a b : skind) : bool :=
  match a, b with
  | KSub, KSub | KFun, KFun | KMod, KMod | KAssoc, KAssoc | KTypedef, KTypedef => true
  | _, _ => false
  end.

(** tables are compared as maps (the harness sorts by name; after edits the model's order may differ) *)
Definition table_eqb (a b : table) : bool :=
  Nat.eqb (List.length a) (List.length b)
  && forallb (fun ne => match tget b (fst ne) with Some e => entry_eqb (snd ne) e | None => false end) a.

(** occurrence lists are compared as multisets (statement order is not a property of the scope graph) *)
Definition count_occ_b (o : occ) (l : list occ) : nat := List.length (filter (occ_eqb o) l).
Definition occs_eqb (a b : list occ) : bool :=
  Nat.eqb (List.length a) (List.length b) && forallb (fun o => Nat.eqb (count_occ_b o a) (count_occ_b o b)) a.

Fixpoint unit_eqb (a b : unit) : bool :=
  match a, b with
  | Unit i k nm par tab occs ch, Unit i' k' nm' par' tab' occs' ch' =>
      (i =? i') && skind_eqb k k' && String.eqb nm nm' && opt_sid_eqb par par'
      && table_eqb tab tab' && occs_eqb occs occs'
      && (fix all2 (l : list unit) (l' : list unit) : bool :=
            match l, l' with
            | [], [] => true
            | x :: r, y :: q => unit_eqb x y && all2 r q
            | _, _ => false
            end) ch ch'
  end.

(** model of clone on the extracted original == extracted clone *)
Definition chk_clone (d : Z) (ctx : chain) (u : unit) (expected : unit) : bool := unit_eqb (clone d ctx u) expected.

(** the generator's claim "this unit is in the class" is re-checked on the extracted graph *)
Definition chk_class (claimed : bool) (d : Z) (ctx : chain) (u : unit) : bool :=
  implb claimed (bounded d ctx u && wf ctx u && clean u).

(** the clone leaks into the original exactly when the implementation was seen to *)
Definition chk_closed (d : Z) (ctx : chain) (u : unit) (impl_closed : bool) : bool :=
  Bool.eqb (closed_wrt (ids u) (clone d ctx u)) impl_closed.

(** both copies after a history of edits *)
Definition chk_history (d : Z) (ctx : chain) (u : unit) (es : list edit) (exp_orig exp_clone : unit) : bool :=
  unit_eqb (apply_edits es u) exp_orig && unit_eqb (apply_edits es (clone d ctx u)) exp_clone.

(** types read by all symbols of the clone / of the original *)
Definition chk_types (ctx : chain) (u : unit) (tys : list (option Z)) : bool :=
  list_eqb (fun a b => match a, b with Some x, Some y => x =? y | None, None => true | _, _ => false end) (occ_types ctx u) tys.
