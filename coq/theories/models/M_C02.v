(** C02 — read-write of generated Fortran is a fixpoint.  Definitions only.

    Statement level: the printer / reader / [norm] of M_C01.  Expression level: [parse_fe], an executable model of
    what loki.frontend.fparser.FParser2IR builds when it reads the text fgen printed (Fortran operator levels;
    create_operation: binary Sum/Product, [-x] as [(-1)*x], [+x] as a one-child Sum, [a-b] as [a + (-1)*b];
    visit_Parenthesis: a parenthesised Sum/Product/Quotient/Power becomes its Parenthesised* class, any other
    parenthesised expression is returned bare).  [reparse_with r]: printed lines with every expression slot
    re-read by [r], then the line reader. *)
From Coq Require Import ZArith List Bool String.
From LV Require Import Base.Expr Base.MiniF models.M_C06 models.M_C01.
Import ListNotations.
Open Scope Z_scope.

(** FParser2IR.visit_Parenthesis *)
Definition mark_paren (e : expr) : expr :=
  match e with
  | ESum _ cs => ESum true cs
  | EProd _ cs => EProd true cs
  | EQuot _ a b => EQuot true a b
  | EPow _ a b => EPow true a b
  | _ => e
  end.

Definition mk_neg (a : expr) : expr := EProd false [EPy (-1); a].

(** precedence climbing over the Fortran levels (as M_C06.rp), building Loki trees *)
Fixpoint pfe (fuel : nat) (lv : nat) (ts : list token) {struct fuel} : option (expr * list token) :=
  match fuel with
  | O => None
  | S f =>
      match lv with
      | 0%nat => match pfe f 1 ts with Some (t, r) => ploop f 0 t r | None => None end
      | 1%nat => match pfe f 2 ts with Some (t, r) => ploop f 1 t r | None => None end
      | 2%nat => match ts with
                 | TNot :: r => match pfe f 3 r with Some (t, r') => Some (ENot t, r') | None => None end
                 | _ => pfe f 3 ts
                 end
      | 3%nat => match pfe f 4 ts with
                 | Some (t, TRel op :: r) =>
                     match pfe f 4 r with Some (t2, r') => Some (ECmp op t t2, r') | None => None end
                 | o => o
                 end
      | 4%nat => match ts with
                 | TMinus :: r => match pfe f 5 r with Some (t, r') => ploop f 4 (mk_neg t) r' | None => None end
                 | TPlus :: r => match pfe f 5 r with Some (t, r') => ploop f 4 (ESum false [t]) r' | None => None end
                 | _ => match pfe f 5 ts with Some (t, r') => ploop f 4 t r' | None => None end
                 end
      | 5%nat => match pfe f 6 ts with Some (t, r) => ploop f 5 t r | None => None end
      | 6%nat => match pfe f 7 ts with
                 | Some (t, TPow :: r) =>
                     match pfe f 6 r with Some (t2, r') => Some (EPow false t t2, r') | None => None end
                 | o => o
                 end
      | _ => match ts with
             | TInt n :: r => Some (EInt n, r)
             | TTrue :: r => Some (ELog true, r)
             | TFalse :: r => Some (ELog false, r)
             | TVar x :: TLP :: TRP :: r => Some (ECall x [], r)
             | TVar x :: TLP :: r =>
                 match pargs f r with Some (args, r') => Some (ECall x args, r') | None => None end
             | TVar x :: r => Some (EVar x, r)
             | TLP :: r => match pfe f 0 r with Some (t, TRP :: r') => Some (mark_paren t, r') | _ => None end
             | _ => None
             end
      end
  end
with ploop (fuel : nat) (lv : nat) (acc : expr) (ts : list token) {struct fuel} : option (expr * list token) :=
  match fuel with
  | O => None
  | S f =>
      match lv, ts with
      | 0%nat, TOr :: r => match pfe f 1 r with Some (t, r') => ploop f 0 (EOr [acc; t]) r' | None => None end
      | 1%nat, TAnd :: r => match pfe f 2 r with Some (t, r') => ploop f 1 (EAnd [acc; t]) r' | None => None end
      | 4%nat, TPlus :: r => match pfe f 5 r with Some (t, r') => ploop f 4 (ESum false [acc; t]) r' | None => None end
      | 4%nat, TMinus :: r => match pfe f 5 r with Some (t, r') => ploop f 4 (ESum false [acc; mk_neg t]) r' | None => None end
      | 5%nat, TStar :: r => match pfe f 6 r with Some (t, r') => ploop f 5 (EProd false [acc; t]) r' | None => None end
      | 5%nat, TSlash :: r => match pfe f 6 r with Some (t, r') => ploop f 5 (EQuot false acc t) r' | None => None end
      | _, _ => Some (acc, ts)
      end
  end
with pargs (fuel : nat) (ts : list token) {struct fuel} : option (list expr * list token) :=
  match fuel with
  | O => None
  | S f =>
      match pfe f 0 ts with
      | Some (t, TComma :: r) => match pargs f r with Some (a, r') => Some (t :: a, r') | None => None end
      | Some (t, TRP :: r) => Some ([t], r)
      | _ => None
      end
  end.

Definition parse_fe (ts : list token) : option expr :=
  match pfe (4 * List.length ts + 16) 0 ts with
  | Some (t, []) => Some t
  | _ => None
  end.

(** re-reading what was printed for a tree *)
Definition reread_fe (e : expr) : option expr := parse_fe (print_f e PREC_NONE).

(** per-slot verdicts (decidable by evaluation) *)
Definition fix_with (r : expr -> option expr) (e : expr) : bool :=
  match r e with Some e' => toks_eqb (print_f e' PREC_NONE) (print_f e PREC_NONE) | None => false end.
Definition id_with (r : expr -> option expr) (e : expr) : bool :=
  match r e with Some e' => expr_eqb e' e | None => false end.
Definition fe_fix : expr -> bool := fix_with reread_fe.
Definition fe_id : expr -> bool := id_with reread_fe.

(** * Re-reading lines with a given expression reader *)
Definition rr_simple (r : expr -> option expr) (m : simple) : option simple :=
  match m with
  | MAssign x e => match r e with Some e' => Some (MAssign x e') | None => None end
  | MStore a i e => match omap r i, r e with Some i', Some e' => Some (MStore a i' e') | _, _ => None end
  | MCall f a => match omap r a with Some a' => Some (MCall f a') | None => None end
  end.

Definition rr_line (r : expr -> option expr) (l : line) : option line :=
  match l with
  | LSimple m => option_map LSimple (rr_simple r m)
  | LDo v lo hi st =>
      match r lo, r hi, (match st with Some e => option_map Some (r e) | None => Some None end) with
      | Some lo', Some hi', Some st' => Some (LDo v lo' hi' st')
      | _, _, _ => None
      end
  | LWhile c => option_map LWhile (r c)
  | LIf c => option_map LIf (r c)
  | LElseIf c => option_map LElseIf (r c)
  | LIfInline c m => match r c, rr_simple r m with Some c', Some m' => Some (LIfInline c' m') | _, _ => None end
  | _ => Some l
  end.

Definition reparse_with (r : expr -> option expr) (p : list fstmt) : option (list fstmt) :=
  match omap (rr_line r) (print_stmts p) with
  | Some ls => read_lines (S (2 * List.length ls)) ls
  | None => None
  end.
Definition reparse_fe : list fstmt -> option (list fstmt) := reparse_with reread_fe.

(** all expression slots of a program satisfy a predicate *)
Definition simple_all (ok : expr -> bool) (m : simple) : bool :=
  match m with
  | MAssign _ e => ok e
  | MStore _ i e => forallb ok i && ok e
  | MCall _ a => forallb ok a
  end.
Definition ostep_all (ok : expr -> bool) (st : option expr) : bool := match st with Some e => ok e | None => true end.
Fixpoint slots_all (ok : expr -> bool) (s : fstmt) : bool :=
  match s with
  | FSimple m => simple_all ok m
  | FDo _ lo hi st b => ok lo && ok hi && ostep_all ok st && forallb (slots_all ok) b
  | FWhile c b => ok c && forallb (slots_all ok) b
  | FIf c t e _ => ok c && forallb (slots_all ok) t && forallb (slots_all ok) e
  | FIfInline c m => ok c && simple_all ok m
  | FComment _ => true
  end.
Definition slots_all_list (ok : expr -> bool) (p : list fstmt) : bool := forallb (slots_all ok) p.

(** the total version of a reader (identity where it fails) *)
Definition total (r : expr -> option expr) (e : expr) : expr := match r e with Some e' => e' | None => e end.

Definition map_line (f : expr -> expr) (l : line) : line :=
  match l with
  | LSimple m => LSimple (map_simple f m)
  | LDo v lo hi st => LDo v (f lo) (f hi) (option_map f st)
  | LWhile c => LWhile (f c)
  | LIf c => LIf (f c)
  | LElseIf c => LElseIf (f c)
  | LIfInline c m => LIfInline (f c) (map_simple f m)
  | _ => l
  end.

(** * Predicted verdicts of the two halves of the property, and correspondence entry points *)
Definition text_fix_pred (p : list fstmt) : bool :=
  match reparse_fe p with
  | Some q => klines_eqb (map render (print_stmts q)) (map render (print_stmts p))
  | None => false
  end.
Definition ir_same_pred (p : list fstmt) : bool :=
  match reparse_fe p with Some q => fstmts_eqb q p | None => false end.

(** the model reader, on the tokens of the real text of a slot, builds the tree the real frontend built *)
Definition chk_fe (toks : list token) (e : expr) : bool :=
  match parse_fe toks with Some e' => expr_eqb e' e | None => false end.
(** a text the real frontend rejects is rejected by the model reader *)
Definition chk_fe_rejects (toks : list token) : bool :=
  match parse_fe toks with Some _ => false | None => true end.
Definition chk_verdict (p : list fstmt) (text_same ir_same : bool) : bool :=
  Bool.eqb (text_fix_pred p) text_same && Bool.eqb (ir_same_pred p) ir_same.
Definition chk_reparse_fe (p q : list fstmt) : bool :=
  match reparse_fe p with Some q' => fstmts_eqb q' q | None => false end.

Definition chk_reparse_fails (p : list fstmt) : bool :=
  match reparse_fe p with Some _ => false | None => true end.

(** * Witnesses outside the class *)
Open Scope string_scope.
(** [DO i=1,n,1]: the unit step is not printed, the re-read loop has no step *)
Definition w_unit_step : list fstmt := [FDo "i" (EInt 1) (EVar "n") (Some (EInt 1)) [FSimple (MAssign "a" (EVar "i"))]].
(** [(+2)]: ParenthesisedAdd with one child prints "(2)", which is re-read as the literal 2 and printed "2" *)
Definition w_paren_plus : expr := ESum false [EVar "a"; EProd false [EPy (-1); ESum true [EInt 2]]].
(** [+a]: a one-child Sum prints "a" and is re-read as the variable *)
Definition w_unary_plus : expr := ESum false [EVar "a"].
(** [p .and. (q .and. r)]: the frontend drops parentheses around logical expressions; the text re-associates *)
Definition w_and_right : expr :=
  EAnd [ECmp Clt (EVar "a") (EInt 1); EAnd [ECmp Clt (EVar "b") (EInt 1); ECmp Clt (EVar "c") (EInt 1)]].
(** [.not. (.not. p)]: printed ".not..not.(a < 1)", which cannot be read back *)
Definition w_not_not : expr := ENot (ENot (ECmp Clt (EVar "a") (EInt 1))).
