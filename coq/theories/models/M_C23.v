(** C23 — batch processing does not depend on the letter case of names.
    Definitions only.

    (1) [Item.__eq__] / [Item.__hash__] (loki/batch/item.py), dict/graph membership;
    (2) how the ItemFactory builds item names (always [str.lower()]), the CaseInsensitiveDict cache;
    (3) [DuplicateKernel._get_new_item_name] and the clone lookup of
        [ItemFactory.get_or_create_item_from_item] (a PLAIN dict keyed by the created, lower-case names);
    (4) [SchedulerConfig.match_item_keys] on plain (pattern-free) keys;
    (5) "the same input up to letter case" for the C22 model: the similarity relations [sim_*]
        (decidable versions [simb_*] for the correspondence run) and case renamings. *)
From Coq Require Import String Ascii List Bool Arith.
From LV Require Import Base.Strings models.M_C22.
Import ListNotations.
Open Scope string_scope.
Open Scope list_scope.
Infix "+++" := String.append (right associativity, at level 60).

(* ------------------------------------------------------------------------- *)
(** * (1) Item equality and hashing *)

(** [Item.__eq__] (also against a plain string) *)
Definition item_eqb (a b : string) : bool := name_eqb a b.

(** [Item.__hash__ = hash(self.name)]: the hash is a function of the exact spelling.  Python's
    string hash is abstracted to the string itself (two hashes are equal iff the strings are;
    accidental collisions are ignored). *)
Definition item_hash (a : string) : string := a.

(** the repair that was tried and rejected (breaks test_sgraph_filegraph): hash(self.name.lower()) *)
Definition item_hash_folded (a : string) : string := lower a.

(** membership in a dict / set / networkx graph: same hash AND equal *)
Definition py_mem (x : string) (l : list string) : bool :=
  existsb (fun y => String.eqb (item_hash x) (item_hash y) && item_eqb x y) l.

Definition is_lower (a : string) : bool := String.eqb (lower a) a.

(* ------------------------------------------------------------------------- *)
(** * (2) ItemFactory: item names and the cache *)

(** ItemFactory.create_from_ir / FileItem.create_definition_items / get_or_create_file_item_*:
    every name is built from source spellings and then lower-cased *)
Definition module_item_name (m : string) : string := lower m.
Definition scoped_item_name (scope local : string) : string := lower (scope +++ "#" +++ local).
Definition binding_item_name (scope type_ rest : string) : string := lower (scope +++ "#" +++ type_ +++ "%" +++ rest).
Definition file_item_name (path : string) : string := lower path.

(** CaseInsensitiveDict as used for [item_cache] / [config.routines]: keys are lower-cased on every access *)
Fixpoint ci_get {V} (k : string) (d : list (string * V)) : option V :=
  match d with
  | [] => None
  | (k', v) :: r => if String.eqb (lower k) k' then Some v else ci_get k r
  end.
Fixpoint ci_set {V} (k : string) (v : V) (d : list (string * V)) : list (string * V) :=
  match d with
  | [] => [(lower k, v)]
  | (k', v') :: r => if String.eqb (lower k) k' then (k', v) :: r else (k', v') :: ci_set k v r
  end.

(* ------------------------------------------------------------------------- *)
(** * (3) DuplicateKernel *)

(** [_get_new_item_name]: (scope_name, local_name, new_item_name); scope "" = no scope *)
Definition new_item_name (scope local suffix msuffix : string) : string * string * string :=
  let scope' := if String.eqb scope "" then "" else scope +++ msuffix in
  let local' := local +++ suffix in
  (scope', local', scope' +++ "#" +++ local').

(** [ItemFactory.get_or_create_item_from_item] for a free-standing procedure (no scope):
    the clone's items are created with lower-case names and put into a PLAIN dict; the requested
    name is looked up in it by exact spelling.  [None] = RuntimeError "Failed to clone item". *)
Definition clone_free (cached : list string) (new_name new_local : string) : option string :=
  if mem_name new_name cached then Some (lower new_name)      (* found in the (case-insensitive) item cache *)
  else
    let created := scoped_item_name "" new_local in            (* "#<local>" lower-cased by the factory *)
    if String.eqb new_name created then Some created else None.

(** the same with a case-insensitive lookup (the proposed repair) *)
Definition clone_free_fixed (cached : list string) (new_name new_local : string) : option string :=
  if mem_name new_name cached then Some (lower new_name)
  else
    let created := scoped_item_name "" new_local in
    if name_eqb new_name created then Some created else None.

(* ------------------------------------------------------------------------- *)
(** * (4) SchedulerConfig.match_item_keys (no patterns; the item name given as scope + local part) *)

Definition candidates (scope local : string) (parents : bool) : list string :=
  let full := lower (scope +++ "#" +++ local) in
  [full; lower local] ++ (if parents && negb (String.eqb scope "") then [lower scope] else []).

Definition match_keys (scope local : string) (keys : list string) (parents : bool) : list string :=
  filter (fun k => existsb (String.eqb k) (candidates scope local parents)) (map lower keys).

(* ------------------------------------------------------------------------- *)
(** * (5) Inputs that agree up to letter case *)

Definition sim_name (a b : string) : Prop := lower a = lower b.

Record sim_item (a b : item) : Prop := mkSim {
  si_name : lower (iname a) = lower (iname b);
  si_file : lower (ifile a) = lower (ifile b);
  si_kind : ikind a = ikind b;
  si_ext  : iext a = iext b;
  si_gen  : igen a = igen b;
  si_ign  : iign a = iign b;
  si_mode : imode a = imode b;
  si_role : irole a = irole b
}.

Definition sim_edge (e e' : string * string) : Prop :=
  lower (fst e) = lower (fst e') /\ lower (snd e) = lower (snd e').

Record sim_graph (g g' : graph) : Prop := mkSimG {
  sg_nodes : Forall2 sim_item (nodes g) (nodes g');
  sg_edges : Forall2 sim_edge (edges g) (edges g')
}.

Definition sim_outcome (o o' : outcome) : Prop :=
  match o, o' with
  | Done, Done => True
  | ErrExternal a, ErrExternal b => lower a = lower b
  | _, _ => False
  end.

(** decidable versions, evaluated on the graphs extracted from two case variants of one project *)
Fixpoint forall2b {A B} (p : A -> B -> bool) (l : list A) (l' : list B) : bool :=
  match l, l' with
  | [], [] => true
  | a :: r, b :: r' => p a b && forall2b p r r'
  | _, _ => false
  end.

Definition simb_item (a b : item) : bool :=
  name_eqb (iname a) (iname b) && name_eqb (ifile a) (ifile b) && kind_eqb (ikind a) (ikind b) &&
  Bool.eqb (iext a) (iext b) && Bool.eqb (igen a) (igen b) && Bool.eqb (iign a) (iign b) &&
  String.eqb (imode a) (imode b) && String.eqb (irole a) (irole b).

Definition simb_edge (e e' : string * string) : bool :=
  name_eqb (fst e) (fst e') && name_eqb (snd e) (snd e').

Definition simb_graph (g g' : graph) : bool :=
  forall2b simb_item (nodes g) (nodes g') && forall2b simb_edge (edges g) (edges g').

Definition simb_names (l l' : list string) : bool := forall2b name_eqb l l'.

(** case renamings: arbitrary re-spellings that keep the folded name, possibly a different one for
    every place a name occurs (nodes, file names, edge sources, edge targets, the order) *)
Definition case_renaming (r : string -> string) : Prop := forall n, lower (r n) = lower n.

Definition rename_item (rn rf : string -> string) (it : item) : item :=
  mkItem (rn (iname it)) (ikind it) (iext it) (igen it) (iign it) (imode it) (irole it) (rf (ifile it)).

Definition rename_graph (rn rf ra rb : string -> string) (g : graph) : graph :=
  mkGraph (map (rename_item rn rf) (nodes g)) (map (fun e => (ra (fst e), rb (snd e))) (edges g)).

(* ------------------------------------------------------------------------- *)
(** * Correspondence entry points *)

Definition chk_item_eq (a b : string) (impl : bool) : bool := Bool.eqb (item_eqb a b) impl.
Definition chk_item_hash (a b : string) (impl_same_hash : bool) : bool :=
  Bool.eqb (String.eqb (item_hash a) (item_hash b)) impl_same_hash.
Definition chk_py_mem (x : string) (l : list string) (impl : bool) : bool := Bool.eqb (py_mem x l) impl.

Definition chk_scoped_name (scope local impl : string) : bool := String.eqb (scoped_item_name scope local) impl.
Definition chk_module_name (m impl : string) : bool := String.eqb (module_item_name m) impl.
Definition chk_binding_name (scope type_ rest impl : string) : bool := String.eqb (binding_item_name scope type_ rest) impl.
Definition chk_names_lower (l : list string) : bool := forallb is_lower l.

Definition chk_new_item_name (scope local suffix msuffix : string) (impl : string * string * string) : bool :=
  match new_item_name scope local suffix msuffix, impl with
  | (s, l, n), (s', l', n') => String.eqb s s' && String.eqb l l' && String.eqb n n'
  end.

Definition ostring_eqb (a b : option string) : bool :=
  match a, b with
  | Some x, Some y => String.eqb x y
  | None, None => true
  | _, _ => false
  end.
Definition chk_clone_free (cached : list string) (new_name new_local : string) (impl : option string) : bool :=
  ostring_eqb (clone_free cached new_name new_local) impl.

Definition chk_match_keys (scope local : string) (keys : list string) (parents : bool) (impl : list string) : bool :=
  list_eqb String.eqb (match_keys scope local keys parents) impl.

(** two case variants of one project: the extracted graphs and orders agree up to case *)
Definition chk_variants (g g' : graph) (order order' : list string) : bool :=
  simb_graph g g' && simb_names order order' && is_topo g order && is_topo g' order'.
