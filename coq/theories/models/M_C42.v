(** C42 — model of the parallel lint protocol (definitions only).

    Anchors: loki/lint/linter.py (lint_files_glob, check_and_fix_file), loki/lint/reporter.py
    (Reporter.init_parallel / add_file_report / add_file_error / output, LazyTextfile),
    loki/jit_build/workqueue.py (workqueue, ParallelQueue.call, init_worker).

    What the code does.  All files are submitted at once to a ProcessPoolExecutor with N workers (FIFO
    call queue, at most N tasks execute).  A task [check_and_fix_file f] builds the file report (or, on any
    exception, the one-problem error report) and then runs, INSIDE THE WORKER,
        for handler, reports in handlers_reports.items():  reports.append(handler.handle(file_report))
    i.e. one append per handler, in handler order, each to that handler's manager-backed shared list.  The H
    appends of one task are NOT atomic as a group: appends of other tasks may be interleaved between them, so
    different handlers can see different completion orders.  The parent only adds the boolean results
    (as_completed) and finally calls handler.output(list) per handler.  With max_workers = 1 no pool is used:
    the same per-file code runs in a loop over the sorted file list.

    A file is an integer key (index in the sorted file list); the picklable per-handler report of file f for
    handler h is [(f, cont h f)] where [cont] is a pure function (content id; 0 = "nothing to print":
    '' for the violations handler, [] for DefaultHandler). *)
From Coq Require Import ZArith List Bool Arith.
Import ListNotations.

Definition file := Z.
Definition item := (Z * Z)%type.

Definition item_eqb (a b : item) : bool := ((fst a =? fst b)%Z && (snd a =? snd b)%Z).

Fixpoint items_eqb (a b : list item) : bool :=
  match a, b with
  | [], [] => true
  | x :: a', y :: b' => item_eqb x y && items_eqb a' b'
  | _, _ => false
  end.

Record task := Task { t_file : file; t_prog : nat }.      (* t_prog = number of handler appends already done *)

Record state := St {
  pending : list file;            (* submitted, not yet taken by a worker (FIFO) *)
  running : list task;            (* tasks executing in workers, at most N *)
  lists   : nat -> list item;     (* handlers_reports: the shared list of handler h *)
  done    : list file;            (* results collected by the parent, in completion order *)
  count   : nat                   (* checked_count *)
}.

Definition b2n (b : bool) : nat := if b then 1 else 0.

Definition upd (ls : nat -> list item) (h : nat) (x : item) : nat -> list item :=
  fun k => if Nat.eqb k h then ls k ++ [x] else ls k.

Definition init (fs : list file) : state := St fs [] (fun _ => []) [] 0.

Definition final (s : state) : Prop := pending s = [] /\ running s = [].

Definition finalb (s : state) : bool :=
  match pending s, running s with [], [] => true | _, _ => false end.

Section Protocol.
  Variable H : nat.                      (* number of handlers *)
  Variable cont : nat -> file -> Z.      (* handler.handle(report of f), as a content id *)
  Variable okf : file -> bool.           (* check_and_fix_file returns True (no exception) *)

  Definition rep (h : nat) (f : file) : item := (f, cont h f).

  Inductive step (N : nat) : state -> state -> Prop :=
  | st_start : forall f p r ls d c,
      length r < N ->
      step N (St (f :: p) r ls d c) (St p (r ++ [Task f 0]) ls d c)
  | st_append : forall p r1 f k r2 ls d c,
      k < H ->
      step N (St p (r1 ++ Task f k :: r2) ls d c)
             (St p (r1 ++ Task f (S k) :: r2) (upd ls k (rep k f)) d c)
  | st_finish : forall p r1 f r2 ls d c,
      step N (St p (r1 ++ Task f H :: r2) ls d c)
             (St p (r1 ++ r2) ls (d ++ [f]) (c + b2n (okf f))).

  Inductive steps (N : nat) : state -> state -> Prop :=
  | steps_refl : forall s, steps N s s
  | steps_cons : forall s1 s2 s3, step N s1 s2 -> steps N s2 s3 -> steps N s1 s3.

  Definition reachable (N : nat) (fs : list file) (s : state) : Prop := steps N (init fs) s.

  (** the serial loop (max_workers = 1 path of lint_files_glob) *)
  Definition serial_list (h : nat) (fs : list file) : list item := map (rep h) fs.
  Definition count_ok (fs : list file) : nat := length (filter okf fs).

  (** ---- executable semantics: schedules as event lists (used to validate observed runs) ---- *)
  Inductive ev := EStart | EApp (f : file) | EFin (f : file).

  Fixpoint pick (f : file) (r : list task) : option (list task * task * list task) :=
    match r with
    | [] => None
    | t :: r' =>
        if (t_file t =? f)%Z then Some ([], t, r')
        else match pick f r' with
             | Some (a, x, b) => Some (t :: a, x, b)
             | None => None
             end
    end.

  Definition do_ev (N : nat) (s : state) (e : ev) : option state :=
    match e with
    | EStart =>
        match pending s with
        | f :: p => if length (running s) <? N
                    then Some (St p (running s ++ [Task f 0]) (lists s) (done s) (count s))
                    else None
        | [] => None
        end
    | EApp f =>
        match pick f (running s) with
        | Some (a, t, b) =>
            if t_prog t <? H
            then Some (St (pending s) (a ++ Task (t_file t) (S (t_prog t)) :: b)
                          (upd (lists s) (t_prog t) (rep (t_prog t) (t_file t))) (done s) (count s))
            else None
        | None => None
        end
    | EFin f =>
        match pick f (running s) with
        | Some (a, t, b) =>
            if t_prog t =? H
            then Some (St (pending s) (a ++ b) (lists s) (done s ++ [t_file t]) (count s + b2n (okf (t_file t))))
            else None
        | None => None
        end
    end.

  Fixpoint run (N : nat) (s : state) (evs : list ev) : option state :=
    match evs with
    | [] => Some s
    | e :: r => match do_ev N s e with Some s' => run N s' r | None => None end
    end.

  (** the schedule of the serial loop *)
  Definition serial_sched_file (f : file) : list ev := EStart :: map (fun _ => EApp f) (seq 0 H) ++ [EFin f].
  Definition serial_sched (fs : list file) : list ev := flat_map serial_sched_file fs.

  (** observations: (handler index, list) pairs *)
  Definition obs_ok (s : state) (obs : list (nat * list item)) : bool :=
    forallb (fun o => items_eqb (lists s (fst o)) (snd o)) obs.

  (** "the observed per-handler lists and count are produced by the execution [sched] of the model" *)
  Definition chk_trace (N : nat) (fs : list file) (sched : list ev) (obs : list (nat * list item)) (cnt : nat) : bool :=
    match run N (init fs) sched with
    | Some s => finalb s && obs_ok s obs && (count s =? cnt)
    | None => false
    end.
End Protocol.

(** ---- per-file views and multiset comparison ---- *)
Definition per_file (l : list item) (f : file) : list item := filter (fun it => (fst it =? f)%Z) l.
Definition view (fs : list file) (l : list item) : list (list item) := map (per_file l) fs.
(** entries that print something (the violations file drops '' blocks, DefaultHandler prints nothing for []) *)
Definition visible (l : list item) : list item := filter (fun it => negb (snd it =? 0)%Z) l.

(** multiset equality by removing, for each element of [a], one equal element of [b] *)
Fixpoint remove1 (x : item) (l : list item) : option (list item) :=
  match l with
  | [] => None
  | y :: r => if item_eqb x y then Some r
              else match remove1 x r with Some r' => Some (y :: r') | None => None end
  end.

Fixpoint is_perm (a b : list item) : bool :=
  match a with
  | [] => match b with [] => true | _ => false end
  | x :: a' => match remove1 x b with Some b' => is_perm a' b' | None => false end
  end.

Fixpoint nodup_keys (l : list item) : bool :=
  match l with
  | [] => true
  | x :: r => negb (existsb (fun y => (fst y =? fst x)%Z) r) && nodup_keys r
  end.

(** ---- concrete instantiation used by the correspondence: tables measured / predicted per case ---- *)
Definition tcont (table : list (list Z)) (h : nat) (f : file) : Z :=
  nth (Z.to_nat f) (nth h table []) (-1)%Z.
Definition tok (oks : list bool) (f : file) : bool := nth (Z.to_nat f) oks false.
Definition files_upto (n : nat) : list file := map Z.of_nat (seq 0 n).

(** serial path: lists are exactly the per-file reports in file order; partial observables exactly the visible part *)
Definition chk_serial (table : list (list Z)) (oks : list bool) (n : nat)
           (full : list (nat * list item)) (part : list (nat * list item)) (cnt : nat) : bool :=
  let fs := files_upto n in
  forallb (fun o => items_eqb (snd o) (serial_list (tcont table) (fst o) fs)) full
  && forallb (fun o => items_eqb (snd o) (visible (serial_list (tcont table) (fst o) fs))) part
  && (cnt =? count_ok (tok oks) fs).

(** parallel path: the fully observed lists are reproduced by a run of the model (witness schedule found by the
    harness, validated here by executing the model), they are permutations of the serial lists with each file once,
    and the partially observed handlers (visible entries only, order as printed) are permutations of the visible
    serial entries *)
Definition chk_parallel (N H : nat) (table : list (list Z)) (oks : list bool) (n : nat) (sched : list ev)
           (full : list (nat * list item)) (part : list (nat * list item)) (cnt : nat) : bool :=
  let fs := files_upto n in
  chk_trace H (tcont table) (tok oks) N fs sched full cnt
  && forallb (fun o => is_perm (snd o) (serial_list (tcont table) (fst o) fs) && nodup_keys (snd o)) full
  && forallb (fun o => is_perm (snd o) (visible (serial_list (tcont table) (fst o) fs)) && nodup_keys (snd o)) part
  && (cnt =? count_ok (tok oks) fs)
  && (1 <=? N).

(** ---- the output sink (LazyTextfile) and the worker logger set-up ----
    Both were places where the output depended on the worker count (findings F-C42-1 / F-C42-2, fixed in /repo by
    89a45c7 and 230fb41).  The [_old] definitions keep the behaviour before the fixes for the record. *)

(** BEFORE 89a45c7: LazyTextfile only reached the disk when its file object was closed by [__del__].  Parallel path: the
    handler used by [Reporter.output] is a COPY unpickled from the manager dict, kept alive by the IndexError/traceback
    cycle of the ListProxy iteration; [gc_in_order = false]: the buffer is finalised before the LazyTextfile (or at
    interpreter exit) and the pending text is dropped. *)
Definition sink_old (parallel : bool) (gc_in_order : bool) (l : list item) : list item :=
  if parallel && negb gc_in_order then [] else l.

(** NOW: [LazyTextfile.write] flushes after every write, so what [handler.output] wrote is on disk whatever the path
    and whenever (or whether) the handler copy is finalised. *)
Definition sink (parallel : bool) (gc_in_order : bool) (l : list item) : list item := l.

(** observed content of an output file after the interpreter exited, up to order: everything, for either GC outcome *)
Definition chk_sink (parallel : bool) (l observed : list item) : bool :=
  forallb (fun g => is_perm observed (sink parallel g l)) [true; false].

(** BEFORE 230fb41: [for handler in logger.handlers: logger.removeHandler(handler)] mutated the list it iterated, so the
    handlers at odd positions survived in the worker, emitted the record there AND received it again from the parent's
    QueueListener. *)
Fixpoint survivors_old {A : Type} (l : list A) : list A :=
  match l with
  | _ :: y :: r => y :: survivors_old r
  | _ => []
  end.

Fixpoint survives_old (j : nat) : bool :=
  match j with 0 => false | 1 => true | S (S k) => survives_old k end.

Definition log_copies_old (parallel : bool) (j : nat) : nat :=
  if parallel then 1 + b2n (survives_old j) else 1.

(** NOW: [for handler in list(logger.handlers)] removes every handler; only the QueueHandler is left in a worker *)
Definition survivors {A : Type} (l : list A) : list A := [].
Definition survives (j : nat) : bool := false.

(** number of times handler number j of the Loki logger receives one immediate violation message *)
Definition log_copies (parallel : bool) (j : nat) : nat :=
  if parallel then 1 + b2n (survives j) else 1.

Definition chk_log_copies (parallel : bool) (nh : nat) (observed : list nat) : bool :=
  (length observed =? nh) && forallb (fun p => snd p =? log_copies parallel (fst p)) (combine (seq 0 nh) observed).
