(** C27 — model of Loki's dependency queries (loki/analyse/dataflow_analysis.py):
    [loop_carried_dependencies], [FindWrites], [FindReads], [read_after_write_vars], and the ground
    truth they are compared with, taken from the instrumented interpreter of models.M_C26.
    Definitions only (proofs: proofs/P_C27*.v). *)
From Coq Require Import ZArith List Bool String.
From LV Require Import Base.Expr Base.MiniF models.M_C26.
Import ListNotations.
Open Scope Z_scope.

(** * loop_carried_dependencies(loop) = loop.uses_symbols & loop.defines_symbols *)
Definition lcd (sg : sigs) (st : stmt) : names := inter (snd (du_stmt sg st)) (fst (du_stmt sg st)).

(** the query for every DO loop of a body, in pre-order *)
Fixpoint lcd_all_stmt (sg : sigs) (st : stmt) : list names :=
  match st with
  | SDo _ _ _ _ b => lcd sg st :: flat_map (lcd_all_stmt sg) b
  | SWhile _ b => flat_map (lcd_all_stmt sg) b
  | SIf _ tb eb => flat_map (lcd_all_stmt sg) tb ++ flat_map (lcd_all_stmt sg) eb
  | _ => []
  end.
Definition lcd_all (sg : sigs) (ss : list stmt) : list names := flat_map (lcd_all_stmt sg) ss.

(** * The inspection node: a comment/pragma marker (a LeafNode without defines and uses) *)
Definition MARK : string := "lv-inspect".
Definition is_mark (st : stmt) : bool := match st with SSkip l => String.eqb l MARK | _ => false end.

(** * FindWrites(stop=marker, active=True): state = (active, writes) *)
Fixpoint fw_stmt (sg : sigs) (a : bool * names) (st : stmt) : bool * names :=
  let act := fst a && negb (is_mark st) in       (* Visitor.visit: active = (active and o not in stop) or o in start *)
  let W := snd a in
  match st with
  | SDo v _ _ _ b => fold_left (fw_stmt sg) b (act, if act then rem1 v W else W)   (* writes.discard(loop variable) *)
  | SWhile _ b => fold_left (fw_stmt sg) b (act, W)
  | SIf _ tb eb => fold_left (fw_stmt sg) eb (fold_left (fw_stmt sg) tb (act, W))
  | _ => (act, if act then W ++ fst (du_stmt sg st) else W)                        (* visit_LeafNode *)
  end.
Definition fw_body (sg : sigs) (ss : list stmt) (a : bool * names) : bool * names := fold_left (fw_stmt sg) ss a.

(** * FindReads(start=marker, candidate_set, clear_candidates_on_write=True):
      state = (active, candidates, reads) *)
Definition frs := (bool * names * names)%type.

Fixpoint fr_stmt (sg : sigs) (a : frs) (st : stmt) : frs :=
  let '(act0, C, Rd) := a in
  let act := act0 || is_mark st in
  let reg (vs : names) := if act then Rd ++ inter vs C else Rd in      (* _register_reads *)
  match st with
  | SDo v lo hi stp b =>
      let '(act2, C2, Rd2) := fold_left (fr_stmt sg) b (act, (if act then rem1 v C else C), reg (bound_vars lo hi stp)) in
      (act2, C2, if act then rem1 v Rd2 else Rd2)
  | SWhile c b => fold_left (fr_stmt sg) b (act, C, reg (evars c))
  | SIf c tb eb =>
      (* both branches start from the candidates at the IF; the results are united (as long as the
         visitor is inactive the candidate set is untouched, so the union is the set itself) *)
      let '(act1, C1, Rd1) := fold_left (fr_stmt sg) tb (act, C, reg (evars c)) in
      let '(act2, C2, Rd2) := fold_left (fr_stmt sg) eb (act1, C, Rd1) in
      (act2, (if act2 then C2 ++ C1 else C), Rd2)
  | _ =>
      (* visit_LeafNode: reads of node.uses, then the node's defines leave the candidate set *)
      (act, (if act then diff C (fst (du_stmt sg st)) else C), reg (snd (du_stmt sg st)))
  end.
Definition fr_body (sg : sigs) (ss : list stmt) (a : frs) : frs := fold_left (fr_stmt sg) ss a.

(** read_after_write_vars(ir, marker) *)
Definition raw (sg : sigs) (ir : list stmt) : names :=
  let W := snd (fw_body sg ir (true, [])) in
  snd (fr_body sg ir (false, W, [])).

(** correspondence comparators *)
Fixpoint nameslist_eqb (a b : list names) : bool :=
  match a, b with
  | [], [] => true
  | x :: r, y :: q => set_eqb x y && nameslist_eqb r q
  | _, _ => false
  end.

Definition chk_lcd (sg : sigs) (ss : list stmt) (out : list names) : bool := nameslist_eqb (lcd_all sg ss) out.
Definition chk_raw (sg : sigs) (ir : list stmt) (out : names) : bool := set_eqb (raw sg ir) out.

(** * Ground truth from executions *)

(** summaries of the iterations of a DO loop (each one: the DO variable is set, then the body runs) *)
Fixpoint iters_tr (run : store -> option (store * summary)) (v : string) (d : Z) (n : nat) (i : Z) (s : store)
  : option (list summary) :=
  match n with
  | O => Some []
  | S k =>
      obind (run (set_sv v i s)) (fun r1 =>
      obind (iters_tr run v d k (i + d) (fst r1)) (fun l => Some (seqT (wrT (LS v)) (snd r1) :: l)))
  end.

Definition loop_iters (ps : procs) (fuel : nat) (v : string) (lo hi : expr) (stp : option expr) (body : list stmt) (s : store)
  : option (list summary) :=
  obind (evalZ (env_st s) lo) (fun a =>
  obind (evalZ (env_st s) hi) (fun b =>
  obind (match stp with None => Some 1 | Some e => evalZ (env_st s) e end) (fun d =>
    if d =? 0 then None else iters_tr (exec_tr ps fuel body) v d (Z.to_nat (trip_count a b d)) a s))).

(** [x] is loop-carried: some iteration reads (before writing it itself) a location of [x] that an
    earlier iteration wrote *)
Definition carried (x : string) (its : list summary) : Prop :=
  exists j k tj tk l, (j < k)%nat /\ nth_error its j = Some tj /\ nth_error its k = Some tk /\
                      In l (fst tj) /\ In l (snd tk) /\ lname l = x.

Definition carriedb (x : string) (its : list summary) : bool :=
  existsb (fun k => existsb (fun j =>
    match nth_error its j, nth_error its k with
    | Some tj, Some tk => (Nat.ltb j k) && existsb (fun l => String.eqb (lname l) x && mem_loc l (snd tk)) (fst tj)
    | _, _ => false
    end) (seq 0 (List.length its))) (seq 0 (List.length its)).

(** [x] has a read-after-write dependency across the inspection point between [pre] and [post]: a
    location of [x] written by [pre] is read by [post] before [post] overwrites it *)
Definition raw_dep (ps : procs) (x : string) (pre post : list stmt) (s : store) : Prop :=
  exists f s1 t1 s2 t2 l, exec_tr ps f pre s = Some (s1, t1) /\ exec_tr ps f post s1 = Some (s2, t2) /\
                          In l (fst t1) /\ In l (snd t2) /\ lname l = x.

(** * Class predicates *)

(** no inspection marker anywhere in the statements *)
Fixpoint nomark_stmt (st : stmt) : bool :=
  negb (is_mark st) &&
  match st with
  | SDo _ _ _ _ b | SWhile _ b => forallb nomark_stmt b
  | SIf _ tb eb => forallb nomark_stmt tb && forallb nomark_stmt eb
  | _ => true
  end.
Definition nomark (ss : list stmt) : bool := forallb nomark_stmt ss.

(** candidates after an (active) FindReads pass over a statement / a body *)
Definition fr_cands (sg : sigs) (C : names) (ss : list stmt) : names := snd (fst (fr_body sg ss (true, C, []))).

(** the part after the inspection point is in the class where clearing a candidate is justified:
    a candidate is cleared only by a leaf that certainly assigns it as a scalar (not by an element
    store — F9 —, not by a call that may leave it alone), never inside a loop body (the loop may make
    no trip), and a cleared name is not used as an array afterwards; calls are in the class of C26 *)
Definition rawok_fold (ps : procs) (sg : sigs) (f : names -> stmt -> bool) : names -> list stmt -> bool :=
  fix body (C : names) (ss : list stmt) : bool :=
    match ss with
    | [] => true
    | x :: r =>
        let C1 := fr_cands sg C [x] in
        f C x && disjointb (diff C C1) (anames ps r) && body C1 r
    end.

Fixpoint rawok_stmt (mw : musts) (ps : procs) (sg : sigs) (C : names) (st : stmt) : bool :=
  match st with
  | SDo v _ _ _ b =>
      rawok_fold ps sg (rawok_stmt mw ps sg) (rem1 v C) b && subset (rem1 v C) (fr_cands sg (rem1 v C) b)
  | SWhile _ b => rawok_fold ps sg (rawok_stmt mw ps sg) C b && subset C (fr_cands sg C b)
  | SIf _ tb eb => rawok_fold ps sg (rawok_stmt mw ps sg) C tb && rawok_fold ps sg (rawok_stmt mw ps sg) C eb
  | _ => definite_stmt mw ps sg st && subset (inter (fst (du_stmt sg st)) C) (mdef_stmt mw st)
  end.

Definition rawok (mw : musts) (ps : procs) (sg : sigs) : names -> list stmt -> bool :=
  rawok_fold ps sg (rawok_stmt mw ps sg).

(** the class flag for a body with a top-level marker: [pre ++ marker :: post] *)
Definition raw_class (mw : musts) (ps : procs) (sg : sigs) (pre post : list stmt) : bool :=
  nomark pre && dsafe sg pre && rawok mw ps sg (snd (fw_body sg pre (true, []))) post.

Definition chk_rawclass (mw : musts) (ps : procs) (sg : sigs) (pre post : list stmt) (out : bool) : bool :=
  Bool.eqb (raw_class mw ps sg pre post) out.
