(** C19 — fast regex discovery finds what the full parser finds.  Definitions only.

    Part (i): the incremental bookkeeping of [Sourcefile.make_complete] / [ProgramUnit.make_complete]
    (loki/sourcefile.py, loki/program_unit.py) for [frontend=REGEX]: every object remembers the parser
    classes it was parsed with; a request that asks for nothing new returns early; otherwise the object
    is re-parsed with the union and everything nested in it is re-initialised with that union.  The parse
    itself is a function [parse : flags -> text -> ir] (Section variable in the proofs).

    Part (ii): a matcher on pre-classified lines that recovers the program-unit tree the way the regex
    frontend pairs begin/end statements, with the candidate patterns searched per context
    (file: modules and routines; module spec: typedefs, interfaces, imports; routine spec: interfaces,
    imports, calls; CONTAINS part: routines; interface body: routines and procedure statements;
    type CONTAINS part: procedure and generic bindings). *)
From Coq Require Import NArith List Bool String Arith.
Import ListNotations.

(* ================================================================================================ *)
(** * Part (i): parser-class bookkeeping *)

(** RegexParserClass is a [Flag]: a set of classes is a bit mask (ProgramUnitClass = 1, InterfaceClass = 2,
    ImportClass = 4, TypeDefClass = 8, DeclarationClass = 16, CallClass = 32, PragmaClass = 64). *)
Definition flags := N.
Definition f_union (a b : flags) : flags := N.lor a b.
(** [a] asks for nothing new w.r.t. [b]:  [b == (b | a)] as written in ProgramUnit.make_complete *)
Definition f_sub (a b : flags) : bool := N.eqb (N.lor b a) b.
Definition PU : flags := 1%N.
Definition has_pu (a : flags) : bool := f_sub PU a.
Definition f_unions (l : list flags) : flags := fold_right f_union 0%N l.

(** The state follows ONE chain  file > top-level unit > member routine > internal routine ... :
    [h_units] lists the recorded classes of the units on the chain (position 0 = the top-level unit).
    Units beside the chain do not influence it (a request only touches its target and what is nested in it).
    [h_disc = false]: the file has never been parsed with ProgramUnitClass, so there are no unit objects yet
    (its whole text is one RawSource node). *)
Record hstate := { h_file : flags; h_disc : bool; h_units : list flags }.

Inductive target := TFile | TUnit (depth : nat).
Definition request := (target * flags)%type.

Definition reset_from (k : nat) (g : flags) (l : list flags) : list flags :=
  firstn k l ++ repeat g (List.length l - k).

(** ProgramUnit.make_complete(frontend=REGEX, parser_classes=r) on the unit at depth k:
    early return when the unit has a non-empty record that already covers r; otherwise
    from_source(..., parser_classes = r | record): the unit and every unit nested in it are
    re-initialised with that union (the regex patterns pass [parser_classes] down to __initialize__). *)
Definition unit_req (k : nat) (r : flags) (l : list flags) : list flags :=
  match nth_error l k with
  | None => l
  | Some g => if negb (N.eqb g 0) && f_sub r g then l else reset_from k (f_union r g) l
  end.

(** Sourcefile.make_complete(frontend=REGEX, parser_classes=r): every top-level ProgramUnit node gets the
    request; RawSource nodes are re-parsed with the REQUESTED classes only (not the union) - so units are
    discovered by the first request that contains ProgramUnitClass, with exactly that request's classes;
    finally the file's own record becomes the union. *)
Definition step (s : hstate) (q : request) : hstate :=
  match q with
  | (TFile, r) =>
      {| h_file := f_union (h_file s) r;
         h_disc := h_disc s || has_pu r;
         h_units := if h_disc s then unit_req 0 r (h_units s)
                    else if has_pu r then map (fun _ => r) (h_units s) else h_units s |}
  | (TUnit k, r) =>
      if h_disc s then {| h_file := h_file s; h_disc := true; h_units := unit_req k r (h_units s) |} else s
  end.

(** Sourcefile.from_source(src, frontend=REGEX, parser_classes=p0) for a chain of [n] units *)
Definition init (n : nat) (p0 : flags) : hstate :=
  {| h_file := p0; h_disc := has_pu p0; h_units := repeat p0 n |}.

Definition run (n : nat) (p0 : flags) (rs : list request) : hstate := fold_left step rs (init n p0).

(** the IR of the chain after a history: each unit is what [parse] gives for its recorded classes *)
Definition final_ir {text ir : Type} (parse : flags -> text -> ir) (texts : list text) (s : hstate)
  : option (list ir) :=
  if h_disc s then Some (map (fun ft => parse (fst ft) (snd ft)) (combine (h_units s) texts)) else None.

(** requests that concern the chain as a whole: addressed to the file or to the top-level unit *)
Definition top_level (q : request) : bool :=
  match fst q with TFile => true | TUnit 0 => true | TUnit (S _) => false end.
Definition req_classes (rs : list request) : flags := f_unions (map snd rs).

(** ** comparators used by the correspondence *)
Fixpoint list_N_eqb (a b : list N) : bool :=
  match a, b with
  | [], [] => true
  | x :: a', y :: b' => N.eqb x y && list_N_eqb a' b'
  | _, _ => false
  end.

(** the measured frontend as a table: classes -> id of the canonical result; 0 = not measured *)
Definition tlookup (f : flags) (t : list (N * N)) : N :=
  match find (fun p => N.eqb (fst p) f) t with Some p => snd p | None => 0%N end.

(** the model's final state equals the observed records *)
Definition chk_hist (n : nat) (p0 : flags) (rs : list request)
           (obs_file : flags) (obs_disc : bool) (obs_units : list flags) : bool :=
  let s := run n p0 rs in
  N.eqb (h_file s) obs_file && Bool.eqb (h_disc s) obs_disc &&
  (if obs_disc then list_N_eqb (h_units s) obs_units else true).

(** ... and the observed content of every unit on the chain is what the measured table gives for the
    model's final classes *)
Definition chk_hist_ir (n : nat) (p0 : flags) (rs : list request)
           (tables : list (list (N * N))) (obs_ids : option (list N)) : bool :=
  match final_ir tlookup tables (run n p0 rs), obs_ids with
  | Some a, Some b => list_N_eqb a b && negb (existsb (N.eqb 0) a)
  | None, None => true
  | _, _ => false
  end.

Definition chk_history (n : nat) (p0 : flags) (rs : list request)
           (obs_file : flags) (obs_disc : bool) (obs_units : list flags)
           (tables : list (list (N * N))) (obs_ids : option (list N)) : bool :=
  chk_hist n p0 rs obs_file obs_disc obs_units && chk_hist_ir n p0 rs tables obs_ids.

(** many histories over the same chain/tables in one term *)
Definition chk_histories (n : nat) (tables : list (list (N * N)))
           (hs : list (flags * list request * (flags * bool * list flags) * option (list N))) : bool :=
  forallb (fun h => match h with
                    | (p0, rs, (of, od, ou), ids) => chk_history n p0 rs of od ou tables ids
                    end) hs.

(* ================================================================================================ *)
(** * Part (ii): block matching on classified lines *)

Inductive ukind := KModule | KSub | KFun.
Definition ukind_eqb (a b : ukind) : bool :=
  match a, b with KModule, KModule | KSub, KSub | KFun, KFun => true | _, _ => false end.
Definition is_routine (k : ukind) : bool := match k with KModule => false | _ => true end.

Definition ents := list (string * option string).

(** one sanitised statement (comments removed, continuations joined, [;] split, label stripped, lower-cased) *)
Inductive line :=
| LBegin (k : ukind) (name : string)          (* [prefix] subroutine|function|module NAME ... *)
| LEnd (k : ukind)                            (* end subroutine|function|module [NAME] *)
| LContains
| LUse (m : string) (only : bool) (syms : ents)   (* use M [, [only:] a, b => c] *)
| LCall (name : string)                       (* [if (...)] call NAME[(...)] *)
| LTypeBegin (name : string)                  (* type [, attrs] [::] NAME *)
| LTypeEnd
| LProc (is_module : bool) (es : ents)        (* [module] procedure [, attrs] [::] a [=> b], ... *)
| LGeneric (name : string) (names : list string)  (* generic [, attrs] :: NAME => a, b *)
| LIfaceBegin (abstract : bool) (spec : option string)
| LIfaceEnd
| LOther.

Inductive node :=
| NUnit (k : ukind) (name : string) (spec : list node) (members : option (list node))
| NType (name : string) (comps : list node) (binds : option (list node))
| NIface (abstract : bool) (spec : option string) (body : list node)
| NUse (m : string) (only : bool) (syms : ents)
| NCall (name : string)
| NProc (is_module : bool) (es : ents)
| NGeneric (name : string) (names : list string)
| NOther.

(** where we are = which candidate patterns the frontend tries *)
Inductive ctx := CFile | CModSpec | CRoutSpec | CMembers | CIface | CTypeSpec | CTypeBinds.

(** ** text of a tree *)
Fixpoint flatten (n : node) : list line :=
  match n with
  | NUnit k name spec members =>
      LBegin k name :: flat_map flatten spec ++
      match members with None => [] | Some ms => LContains :: flat_map flatten ms end ++ [LEnd k]
  | NType name comps binds =>
      LTypeBegin name :: flat_map flatten comps ++
      match binds with None => [] | Some bs => LContains :: flat_map flatten bs end ++ [LTypeEnd]
  | NIface a s body => LIfaceBegin a s :: flat_map flatten body ++ [LIfaceEnd]
  | NUse m o s => [LUse m o s]
  | NCall c => [LCall c]
  | NProc m es => [LProc m es]
  | NGeneric g ns => [LGeneric g ns]
  | NOther => [LOther]
  end.
Definition flats (l : list node) : list line := flat_map flatten l.

(** ** the matcher *)
(** lines at which the candidate search of a context stops (they belong to the enclosing block) *)
Definition terminates (c : ctx) (l : line) : bool :=
  match c, l with
  | (CModSpec | CRoutSpec), (LContains | LEnd _) => true
  | CMembers, LEnd _ => true
  | CIface, LIfaceEnd => true
  | CTypeSpec, (LContains | LTypeEnd) => true
  | CTypeBinds, LTypeEnd => true
  | _, _ => false
  end.

Definition spec_ctx (k : ukind) : ctx := if is_routine k then CRoutSpec else CModSpec.

(** may a program unit of kind [k] start here?  (ModulePattern only at file level;
    SubroutineFunctionPattern at file level, after CONTAINS and inside interface bodies) *)
Definition unit_opens (c : ctx) (k : ukind) : bool :=
  match c with
  | CFile => true
  | CMembers | CIface => is_routine k
  | _ => false
  end.

(** single-statement candidates of a context *)
Definition leaf (c : ctx) (l : line) : node :=
  match c, l with
  | (CModSpec | CRoutSpec), LUse m o s => NUse m o s
  | CRoutSpec, LCall n => NCall n
  | CIface, LProc m es => NProc m es
  | CTypeBinds, LProc false es => NProc false es
  | CTypeBinds, LGeneric g ns => NGeneric g ns
  | _, _ => NOther
  end.

(** [items fuel c ls] = the nodes found from the head of [ls] up to the first line that terminates the
    context (not consumed), and the remaining lines.  [None]: a block that was opened is not closed properly. *)
Fixpoint items (fuel : nat) (c : ctx) (ls : list line) : option (list node * list line) :=
  match ls with
  | [] => Some ([], [])
  | l :: rest =>
    if terminates c l then Some ([], ls) else
    match fuel with
    | O => None
    | S f =>
      let continue (n : node) (rest' : list line) :=
        match items f c rest' with
        | Some (ns, r) => Some (n :: ns, r)
        | None => None
        end in
      match l with
      | LBegin k name =>
          if unit_opens c k then
            match items f (spec_ctx k) rest with
            | Some (spec, LContains :: r1) =>
                match items f CMembers r1 with
                | Some (ms, LEnd k' :: r2) =>
                    if ukind_eqb k k' then continue (NUnit k name spec (Some ms)) r2 else None
                | _ => None
                end
            | Some (spec, LEnd k' :: r1) =>
                if ukind_eqb k k' then continue (NUnit k name spec None) r1 else None
            | _ => None
            end
          else continue NOther rest
      | LTypeBegin name =>
          match c with
          | CModSpec =>
            match items f CTypeSpec rest with
            | Some (comps, LContains :: r1) =>
                match items f CTypeBinds r1 with
                | Some (bs, LTypeEnd :: r2) => continue (NType name comps (Some bs)) r2
                | _ => None
                end
            | Some (comps, LTypeEnd :: r1) => continue (NType name comps None) r1
            | _ => None
            end
          | _ => continue NOther rest
          end
      | LIfaceBegin a s =>
          match c with
          | CModSpec | CRoutSpec =>
            match items f CIface rest with
            | Some (body, LIfaceEnd :: r1) => continue (NIface a s body) r1
            | _ => None
            end
          | _ => continue NOther rest
          end
      | _ => continue (leaf c l) rest
      end
    end
  end.

Definition match_blocks (ls : list line) : option (list node) :=
  match items (List.length ls) CFile ls with
  | Some (ns, []) => Some ns
  | _ => None
  end.

(** ** what a frontend "discovers": items attributed to the enclosing unit (path of unit names, outermost first) *)
Inductive found :=
| FUnit (k : ukind) (name : string)
| FImport (m : string) (only : bool) (syms : ents)
| FCall (name : string)
| FType (name : string)
| FBinding (ty : string) (is_generic : bool) (name : string) (targets : list string)
| FIface (abstract : bool) (spec : option string)
| FIfaceProc (is_module : bool) (name : string).

Definition path := list string.

Definition binding_items (ty : string) (n : node) : list found :=
  match n with
  | NProc _ es => map (fun e => FBinding ty false (fst e) (match snd e with Some t => [t] | None => [] end)) es
  | NGeneric g ns => [FBinding ty true g ns]
  | _ => []
  end.

Fixpoint collect (p : path) (n : node) : list (path * found) :=
  match n with
  | NUnit k name spec members =>
      (p, FUnit k name) :: flat_map (collect (p ++ [name])) spec ++
      match members with None => [] | Some ms => flat_map (collect (p ++ [name])) ms end
  | NType name comps binds =>
      (p, FType name) ::
      match binds with None => [] | Some bs => map (fun f => (p, f)) (flat_map (binding_items name) bs) end
  | NIface a s body =>
      (p, FIface a s) :: flat_map (collect p) body
  | NUse m o s => [(p, FImport m o s)]
  | NCall c => [(p, FCall c)]
  | NProc m es => map (fun e => (p, FIfaceProc m (fst e))) es
  | NGeneric _ _ => []
  | NOther => []
  end.
Definition collects (p : path) (l : list node) : list (path * found) := flat_map (collect p) l.

(** all CALL statements / USE statements of a text, in order (independent of any block structure) *)
Definition line_calls (ls : list line) : list string :=
  flat_map (fun l => match l with LCall n => [n] | _ => [] end) ls.
Definition line_uses (ls : list line) : list string :=
  flat_map (fun l => match l with LUse m _ _ => [m] | _ => [] end) ls.
Definition found_calls (fs : list (path * found)) : list string :=
  flat_map (fun pf => match snd pf with FCall n => [n] | _ => [] end) fs.
Definition found_uses (fs : list (path * found)) : list string :=
  flat_map (fun pf => match snd pf with FImport m _ _ => [m] | _ => [] end) fs.

(** ** the class of trees the frontend supports: which node may appear in which context (decidable) *)
Definition ctx_eqb (a b : ctx) : bool :=
  match a, b with
  | CFile, CFile | CModSpec, CModSpec | CRoutSpec, CRoutSpec | CMembers, CMembers
  | CIface, CIface | CTypeSpec, CTypeSpec | CTypeBinds, CTypeBinds => true
  | _, _ => false
  end.
Fixpoint wfb (c : ctx) (n : node) : bool :=
  match n with
  | NUnit k name spec members =>
      unit_opens c k && forallb (wfb (spec_ctx k)) spec &&
      match members with None => true | Some ms => forallb (wfb CMembers) ms end
  | NType name comps binds =>
      ctx_eqb c CModSpec && forallb (wfb CTypeSpec) comps &&
      match binds with None => true | Some bs => forallb (wfb CTypeBinds) bs end
  | NIface a s body => (ctx_eqb c CModSpec || ctx_eqb c CRoutSpec) && forallb (wfb CIface) body
  | NUse _ _ _ => ctx_eqb c CModSpec || ctx_eqb c CRoutSpec
  | NCall _ => ctx_eqb c CRoutSpec
  | NProc m _ => ctx_eqb c CIface || (ctx_eqb c CTypeBinds && negb m)
  | NGeneric _ _ => ctx_eqb c CTypeBinds
  | NOther => true
  end.
Definition wfsb (c : ctx) (l : list node) : bool := forallb (wfb c) l.

(** ** comparators used by the correspondence *)
Definition ostring_eqb (a b : option string) : bool :=
  match a, b with
  | Some x, Some y => String.eqb x y
  | None, None => true
  | _, _ => false
  end.
Fixpoint ents_eqb (a b : ents) : bool :=
  match a, b with
  | [], [] => true
  | (x, u) :: a', (y, v) :: b' => String.eqb x y && ostring_eqb u v && ents_eqb a' b'
  | _, _ => false
  end.
Fixpoint strs_eqb (a b : list string) : bool :=
  match a, b with
  | [], [] => true
  | x :: a', y :: b' => String.eqb x y && strs_eqb a' b'
  | _, _ => false
  end.

Definition list_eqb {A : Type} (eq : A -> A -> bool) : list A -> list A -> bool :=
  fix go (x y : list A) : bool :=
    match x, y with
    | [], [] => true
    | p :: x', q :: y' => eq p q && go x' y'
    | _, _ => false
    end.
Definition olist_eqb {A : Type} (eq : A -> A -> bool) (x y : option (list A)) : bool :=
  match x, y with
  | Some a, Some b => list_eqb eq a b
  | None, None => true
  | _, _ => false
  end.

Fixpoint node_eqb (a b : node) : bool :=
  match a, b with
  | NUnit k n s m, NUnit k' n' s' m' =>
      ukind_eqb k k' && String.eqb n n' && list_eqb node_eqb s s' && olist_eqb node_eqb m m'
  | NType n c b, NType n' c' b' =>
      String.eqb n n' && list_eqb node_eqb c c' && olist_eqb node_eqb b b'
  | NIface a s b, NIface a' s' b' => Bool.eqb a a' && ostring_eqb s s' && list_eqb node_eqb b b'
  | NUse m o s, NUse m' o' s' => String.eqb m m' && Bool.eqb o o' && ents_eqb s s'
  | NCall c, NCall c' => String.eqb c c'
  | NProc m es, NProc m' es' => Bool.eqb m m' && ents_eqb es es'
  | NGeneric g ns, NGeneric g' ns' => String.eqb g g' && strs_eqb ns ns'
  | NOther, NOther => true
  | _, _ => false
  end.
Definition nodes_eqb : list node -> list node -> bool := list_eqb node_eqb.

(** the Loki IR keeps unmatched text as RawSource chunks, not line by line: compare modulo [NOther] *)
Fixpoint strip (n : node) : list node :=
  match n with
  | NUnit k name spec members =>
      [NUnit k name (flat_map strip spec) (match members with Some ms => Some (flat_map strip ms) | None => None end)]
  | NType name comps binds =>
      [NType name (flat_map strip comps) (match binds with Some bs => Some (flat_map strip bs) | None => None end)]
  | NIface a s body => [NIface a s (flat_map strip body)]
  | NOther => []
  | _ => [n]
  end.
Definition strips (l : list node) : list node := flat_map strip l.

(** the unit tree the model matcher recovers from the classified lines equals the tree the REGEX frontend built *)
Definition chk_tree (ls : list line) (observed : list node) : bool :=
  match match_blocks ls with
  | Some ns => nodes_eqb (strips ns) observed
  | None => false
  end.
(** the frontend could not pair the blocks (used for malformed inputs): the model agrees *)
Definition chk_tree_fails (ls : list line) : bool :=
  match match_blocks ls with Some _ => false | None => true end.
