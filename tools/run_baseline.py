#!/usr/bin/env python3
"""Run (part of) the repository's baseline test-suite and report stable_pass tests that no longer pass.
usage: run_baseline.py [--repo DIR] [pytest paths ...]   (no paths = whole suite)"""
import json, subprocess, sys, os, tempfile, xml.etree.ElementTree as ET
args = sys.argv[1:]
repo = '/repo'
if args and args[0] == '--repo':
    repo = args[1]; args = args[2:]
b = json.load(open('/root/.vp/BASELINE.json'))
stable = set(b['stable_pass'])
fd, xml = tempfile.mkstemp(suffix='.xml'); os.close(fd)
cmd = ['/venv/bin/python', '-m', 'pytest', '-q', '-p', 'no:cacheprovider', '--timeout=900', '--continue-on-collection-errors',
       '-n', '14', '--junitxml=' + xml] + args
env = dict(os.environ); env['PYTHONPATH'] = repo; env.pop('LOKI_VERIF', None)
r = subprocess.run(cmd, cwd=repo, stdout=subprocess.PIPE, stderr=subprocess.STDOUT, text=True, env=env)
passed, failed = set(), set()
for tc in ET.parse(xml).getroot().iter('testcase'):
    tid = (tc.get('classname') or '') + '::' + (tc.get('name') or '')
    if tc.find('failure') is not None or tc.find('error') is not None: failed.add(tid)
    elif tc.find('skipped') is None: passed.add(tid)
os.unlink(xml)
ran = passed | failed
lost = sorted(t for t in stable if t in failed or (not args and t not in passed))
print(r.stdout.strip().split('\n')[-1])
print('stable_pass tests in scope: %d, passing: %d, LOST: %d' % (len(stable & ran) if args else len(stable), len(stable & passed), len(lost)))
for t in lost[:40]: print('  LOST', t)
sys.exit(1 if lost else 0)
