#!/bin/bash
# usage: tools/integrate.sh C21 C06 ...   — mark ready, assemble, run the quick check once (seed 1), log the verdict
cd "$(dirname "$0")/.."
for P in "$@"; do
  grep -qx "$P" manifest.d/_ready.txt || echo "$P" >> manifest.d/_ready.txt
  python3 tools/mkfindings.py > /dev/null; python3 tools/mkmanifest.py > /dev/null
  echo "=== $P" >> /tmp/integrate.log
  timeout 3000 ./check "$P" --seed 1 > /tmp/integrate_$P.log 2>&1; echo "exit=$?" >> /tmp/integrate_$P.log
  grep -c '^KNOWN-FINDING' /tmp/integrate_$P.log >> /tmp/integrate.log
  grep -v '^KNOWN-FINDING' /tmp/integrate_$P.log | tail -4 >> /tmp/integrate.log
done
echo ALLDONE >> /tmp/integrate.log
