#!/usr/bin/env python3
"""Assemble /verif/MANIFEST.json from manifest.d/*.json fragments; every property without a fragment is listed not_applicable."""
import json, os, glob, sys
V = os.path.dirname(os.path.dirname(os.path.abspath(__file__)))
props = [json.loads(l) for l in open(os.path.join(V, 'properties.jsonl'))]
ids = [p['id'] for p in props]
checks, na = [], []
pending = json.load(open(os.path.join(V, 'manifest.d', '_pending.json'))) if os.path.exists(os.path.join(V, 'manifest.d', '_pending.json')) else {}
ready = set(open(os.path.join(V, 'manifest.d', '_ready.txt')).read().split())
for pid in ids:
    f = os.path.join(V, 'manifest.d', pid + '.json')
    if os.path.exists(f) and pid in ready:
        fr = json.load(open(f))
        checks.append({
            'property_id': pid,
            'quick_cmd': './check %s --tier quick' % pid,
            'thorough_cmd': './check %s --tier thorough' % pid,
            'evidence_file': '/verif/evidence/%s.json' % pid,
            'replay_cmd_template': './check %s --replay {path}' % pid,
            'engine': 'coq-model+correspondence',
            'level_claimed': {'category': 'proof', 'text': fr['level_text'], 'design_ref': 'DESIGN.md section 6, ' + pid},
            'level_note': fr['level_note'],
            'technique': fr.get('technique', 'Coq theorem about a hand-written Gallina model + vm_compute correspondence run against /repo'),
        })
    else:
        na.append({'property_id': pid, 'reason': pending.get(pid, 'no check built yet for this property in this development (model not written); not claimed')})
m = {
    'version': 1,
    'setup_cmd': 'cd /verif && ./setup.sh',
    'hooks': {'guard': 'LOKI_VERIF', 'enable': 'no source hook is needed; checks set LOKI_VERIF=1 for uniformity only',
              'baseline_off_cmd': 'cd /repo && /venv/bin/python -m pytest -ra -q -p no:cacheprovider --timeout=900 --continue-on-collection-errors',
              'source_commits': [], 'add_only': True},
    'engines': [{'name': 'coq-model+correspondence', 'path': '/verif/check',
                 'serves_properties': [c['property_id'] for c in checks],
                 'kind_free_text': 'Coq 8.16.1 theorems about hand-written Gallina models (coq/theories), tied to /repo on every run by evaluating the model with vm_compute on the same generated inputs as the implementation; direct oracles search for failing inputs'}],
    'checks': checks,
    'notes': 'Fix commits in /repo are listed in known_findings.json (status fixed). See DESIGN.md.',
    'not_applicable': na,
}
json.dump(m, open(os.path.join(V, 'MANIFEST.json'), 'w'), indent=1)
print('%d checks, %d not claimed' % (len(checks), len(na)))
