#!/bin/bash
# usage: tools/commit_prop.sh "message" C21 C06 ...
cd "$(dirname "$0")/.."
MSG="$1"; shift
for P in "$@"; do
  n=$(echo $P | tr 'C' 'c')
  git add -f coq/theories/models/M_${P}*.v coq/theories/proofs/P_${P}*.v coq/theories/props/T_${P}.v harness/lokiverif/props/${n}.py \
      manifest.d/$P.json notes/$P.md evidence/$P.json 2>/dev/null
  [ -f findings.d/$P.json ] && git add findings.d/$P.json
  [ -d corpus/$P ] && git add corpus/$P
  ls fixes.d/${P}_*.diff >/dev/null 2>&1 && git add fixes.d/${P}_*.diff
done
python3 tools/mkfindings.py; python3 tools/mkmanifest.py
git add manifest.d/_ready.txt MANIFEST.json known_findings.json
git commit -qm "$MSG" && git log --oneline | head -1
