#!/usr/bin/env python3
"""Assemble known_findings.json from findings.d/*.json (done by hand before committing, never at check time)."""
import json, glob, os
V = os.path.dirname(os.path.dirname(os.path.abspath(__file__)))
out = []
ready = set(open(os.path.join(V, 'manifest.d', '_ready.txt')).read().split())
for f in sorted(glob.glob(os.path.join(V, 'findings.d', '*.json'))):
    if os.path.basename(f)[:-5] in ready:
        out += json.load(open(f))['findings']
json.dump({'findings': out}, open(os.path.join(V, 'known_findings.json'), 'w'), indent=1)
print(len(out), 'findings')
