#!/bin/bash
# usage: tools/run_seeded.sh <seeded-id> [tier]
# Runs the check(s) named in seeded/<id>/meta.json against a scratch worktree of /repo with the patch applied
# (never touches /repo itself), prints the last lines, and removes the worktree.
set -u
ID="$1"; TIER="${2:-quick}"
HERE="$(cd "$(dirname "$0")/.." && pwd)"
D="$HERE/seeded/$ID"
WT="$(mktemp -d /tmp/lv_seeded_XXXXXX)"
rmdir "$WT"
git -C /repo worktree add -q --detach "$WT" HEAD || exit 2
trap 'git -C /repo worktree remove --force "$WT" >/dev/null 2>&1; rm -rf "$WT"' EXIT
git -C "$WT" apply "$D/patch.diff" || { echo "patch does not apply"; exit 2; }
PROPS=$(python3 -c "import json;m=json.load(open('$D/meta.json'));print(' '.join(m.get('checks', [m['property']])))")
for P in $PROPS; do
  echo "== $ID: check $P ($TIER) on patched tree"
  LOKI_VERIF_REPO="$WT" LOKI_VERIF_NO_EVIDENCE=1 "$HERE/check" "$P" --tier "$TIER" 2>&1 | tail -6
done
