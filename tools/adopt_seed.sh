#!/bin/bash
# usage: tools/adopt_seed.sh C12 [tier]  — take /tmp/seed_C12_out, confirm demo (PASS on /repo, FAIL with patch), run the check on the patched tree
set -u
P="$1"; TIER="${2:-quick}"; ROUND="${3:-}"
HERE="$(cd "$(dirname "$0")/.." && pwd)"
SRC=/tmp/seed${ROUND}_${P}_out
D="$HERE/seeded/$P${ROUND:+_$ROUND}"
mkdir -p "$D"; cp "$SRC/patch.diff" "$SRC/demo.py" "$D/"; [ -f "$SRC/README.md" ] && cp "$SRC/README.md" "$D/README.md"
WT="$(mktemp -d /tmp/lv_adopt_XXXXXX)"; rmdir "$WT"
git -C /repo worktree add -q --detach "$WT" HEAD || exit 2
trap 'git -C /repo worktree remove --force "$WT" >/dev/null 2>&1; rm -rf "$WT"' EXIT
git -C "$WT" apply "$D/patch.diff" || { echo "PATCH DOES NOT APPLY"; exit 2; }
(cd /tmp && timeout 300 /venv/bin/python "$D/demo.py" /repo > "$D/demo_unpatched.log" 2>&1); A=$?
(cd /tmp && timeout 300 /venv/bin/python "$D/demo.py" "$WT" > "$D/demo_patched.log" 2>&1); B=$?
echo "demo on /repo: exit $A ; demo on patched: exit $B"
LOKI_VERIF_REPO="$WT" LOKI_VERIF_NO_EVIDENCE=1 timeout 3000 "$HERE/check" "$P" --tier "$TIER" > "$D/check_patched.log" 2>&1; C=$?
grep -c '^VIOLATION' "$D/check_patched.log"; grep '^VIOLATION' "$D/check_patched.log" | head -2; grep "tier=" "$D/check_patched.log" | tail -1
python3 - <<PY
import json
json.dump({"property": "$P", "checks": ["$P"], "demo_exit_unpatched": $A, "demo_exit_patched": $B, "check_exit_patched": $C,
           "ran": "tools/adopt_seed.sh $P $TIER: demo.py on /repo and on a scratch worktree with patch.diff applied; ./check $P with LOKI_VERIF_REPO=<worktree>",
           "needs": open("$D/README.md").read()[:1500] if __import__('os').path.exists("$D/README.md") else ""}, open("$D/meta.json", "w"), indent=1)
PY
